/* Fixed wall clock for the rebuilt dcd extension: makes the DCD header remark deterministic.
 * Linked with -Wl,-Bsymbolic so that only this module sees it. */
#include <time.h>
time_t time(time_t *t) { time_t v = (time_t)1700000000; if (t) *t = v; return v; }
