/* simgomp: a deterministic, seeded replacement for the part of libgomp that mdtraj's
 * extensions import (GOMP_parallel, GOMP_barrier, omp_get_num_threads, omp_get_thread_num).
 *
 * The logical threads of a team are real pthreads, but exactly one of them -- the holder of
 * the baton `cur` -- runs at any time.  The scheduler (a xorshift PRNG seeded through
 * simgomp_config) decides the team size and every hand-over.  Hand-overs can happen at
 * region entry/exit, at barriers and at every yield point; yield points are the callbacks gcc
 * inserts with -fsanitize-coverage=trace-pc (every basic-block edge of the instrumented
 * kernel files) or -finstrument-functions (function entries).
 *
 * One private copy is linked into each extension module (-Wl,-Bsymbolic); Python controls it
 * through ctypes on that module's shared object.
 */
#include <pthread.h>
#include <stdint.h>
#include <stdio.h>
#include <stdlib.h>
#include <string.h>

#define MAXT 256
enum { RUNNABLE = 0, ATBARRIER = 1, DONE = 2 };

static pthread_mutex_t mu = PTHREAD_MUTEX_INITIALIZER;
static pthread_cond_t cv = PTHREAD_COND_INITIALIZER;

static int cfg_team = 1;
static uint64_t cfg_thresh = 0;        /* switch iff rnd() < cfg_thresh */
static uint64_t rng_state = 0x9E3779B97F4A7C15ULL;

static volatile int in_region = 0;
static int team = 1;
static volatile int cur = -1;
static int state[MAXT];
static int n_done = 0, n_bar = 0;
static __thread int my_tid = 0;

/* statistics / trace */
static uint64_t st_yields = 0, st_switches = 0, st_regions = 0, st_barriers = 0, st_par_regions = 0;
static uint64_t st_trace = 0xcbf29ce484222325ULL;
static int st_max_team = 0;

static inline uint64_t rnd(void) {
    uint64_t x = rng_state;
    x ^= x >> 12; x ^= x << 25; x ^= x >> 27;
    rng_state = x;
    return x * 0x2545F4914F6CDD1DULL;
}

static inline void trace(int t) { st_trace = (st_trace ^ (uint64_t)(t + 1)) * 0x100000001b3ULL; }

void simgomp_config(int team_size, uint64_t seed, double switch_prob) {
    cfg_team = team_size < 1 ? 1 : (team_size > MAXT ? MAXT : team_size);
    rng_state = seed ? seed : 0x9E3779B97F4A7C15ULL;
    if (switch_prob <= 0) cfg_thresh = 0;
    else if (switch_prob >= 1) cfg_thresh = UINT64_MAX;
    else cfg_thresh = (uint64_t)(switch_prob * 18446744073709551615.0);
    st_yields = st_switches = st_regions = st_barriers = st_par_regions = 0;
    st_trace = 0xcbf29ce484222325ULL;
    st_max_team = 0;
}

/* out[0..6] = yields, switches, regions, barriers, trace hash, max team, parallel regions (team>1) */
void simgomp_stats(uint64_t *out) {
    out[0] = st_yields; out[1] = st_switches; out[2] = st_regions; out[3] = st_barriers;
    out[4] = st_trace; out[5] = (uint64_t)st_max_team; out[6] = st_par_regions;
}

/* seeded choice among runnable threads; -1 if none.  Caller holds mu. */
static int pick_next(void) {
    int n = 0, i;
    for (i = 0; i < team; i++) if (state[i] == RUNNABLE) n++;
    if (n == 0) return -1;
    int k = (int)(rnd() % (uint64_t)n);
    for (i = 0; i < team; i++) if (state[i] == RUNNABLE) { if (k == 0) return i; k--; }
    return -1;
}

static void handoff(int t) { cur = t; trace(t); pthread_cond_broadcast(&cv); }
static void wait_turn(void) { while (cur != my_tid) pthread_cond_wait(&cv, &mu); }

static inline void do_yield(void) {
    if (!in_region || team < 2) return;
    st_yields++;
    if (cfg_thresh == 0) return;
    if (rnd() >= cfg_thresh) return;
    pthread_mutex_lock(&mu);
    int nx = pick_next();
    if (nx >= 0 && nx != my_tid) { st_switches++; handoff(nx); wait_turn(); }
    pthread_mutex_unlock(&mu);
}

void simgomp_yield(void) { do_yield(); }
void __sanitizer_cov_trace_pc(void) { do_yield(); }
void __cyg_profile_func_enter(void *f, void *c) { (void)f; (void)c; do_yield(); }
void __cyg_profile_func_exit(void *f, void *c) { (void)f; (void)c; }

void GOMP_barrier(void) {
    if (!in_region || team < 2) return;
    pthread_mutex_lock(&mu);
    st_barriers++;
    state[my_tid] = ATBARRIER; n_bar++;
    if (n_bar == team - n_done) {
        int i; for (i = 0; i < team; i++) if (state[i] == ATBARRIER) state[i] = RUNNABLE;
        n_bar = 0;
    }
    int nx = pick_next();
    if (nx < 0) { fprintf(stderr, "simgomp: deadlock at barrier\n"); abort(); }
    if (nx != my_tid) { handoff(nx); wait_turn(); }
    pthread_mutex_unlock(&mu);
}

struct targ { void (*fn)(void *); void *data; int tid; };

static void finish_thread(void) {
    /* caller holds mu */
    state[my_tid] = DONE; n_done++;
    if (n_bar > 0 && n_bar == team - n_done) {
        int i; for (i = 0; i < team; i++) if (state[i] == ATBARRIER) state[i] = RUNNABLE;
        n_bar = 0;
    }
    int nx = pick_next();
    if (nx < 0 && n_done < team) { fprintf(stderr, "simgomp: deadlock at thread exit\n"); abort(); }
    handoff(nx);   /* -1 when everybody is done: wakes the master's drain loop */
}

static void *worker(void *p) {
    struct targ *a = (struct targ *)p;
    my_tid = a->tid;
    pthread_mutex_lock(&mu);
    wait_turn();
    pthread_mutex_unlock(&mu);
    a->fn(a->data);
    pthread_mutex_lock(&mu);
    finish_thread();
    pthread_mutex_unlock(&mu);
    return NULL;
}

void GOMP_parallel(void (*fn)(void *), void *data, unsigned num_threads, unsigned flags) {
    (void)flags;
    int T = num_threads ? (int)num_threads : cfg_team;
    if (T > MAXT) T = MAXT;
    st_regions++;
    if (T > st_max_team) st_max_team = T;
    if (in_region || T < 2) {       /* nested or serial: run inline as a team of one */
        fn(data);
        return;
    }
    st_par_regions++;
    pthread_t th[MAXT];
    struct targ args[MAXT];
    int i;
    pthread_mutex_lock(&mu);
    team = T; n_done = 0; n_bar = 0; cur = -1;
    for (i = 0; i < T; i++) state[i] = RUNNABLE;
    my_tid = 0;
    in_region = 1;
    pthread_mutex_unlock(&mu);
    for (i = 1; i < T; i++) {
        args[i].fn = fn; args[i].data = data; args[i].tid = i;
        if (pthread_create(&th[i], NULL, worker, &args[i]) != 0) { fprintf(stderr, "simgomp: pthread_create failed\n"); abort(); }
    }
    pthread_mutex_lock(&mu);
    handoff(pick_next());
    wait_turn();
    pthread_mutex_unlock(&mu);
    fn(data);
    pthread_mutex_lock(&mu);
    finish_thread();
    while (n_done < team) pthread_cond_wait(&cv, &mu);
    pthread_mutex_unlock(&mu);
    for (i = 1; i < T; i++) pthread_join(th[i], NULL);
    pthread_mutex_lock(&mu);
    in_region = 0; team = 1; cur = -1; my_tid = 0;
    pthread_mutex_unlock(&mu);
}

int omp_get_num_threads(void) { return in_region ? team : 1; }
int omp_get_thread_num(void) { return in_region ? my_tid : 0; }
int omp_get_max_threads(void) { return cfg_team; }
int omp_in_parallel(void) { return in_region && team > 1; }
