"""Build an importable overlay of /repo's *working tree*.

There is no Cython in this sandbox, so the extension modules are rebuilt with gcc from the
hand-written C/C++ of the working tree plus the generated Cython C found on disk.
Python files are copied from the working tree on every build.

Overlay layout:  <dest>/mdtraj/...   (use PYTHONPATH=<dest>)
"""
import hashlib
import os
import shutil
import subprocess
import sys
import sysconfig
import tempfile
from concurrent.futures import ThreadPoolExecutor

VERIF = os.path.dirname(os.path.dirname(os.path.abspath(__file__)))
REPO = os.environ.get('VERIF_REPO', '/repo')
EXT_SUFFIX = sysconfig.get_config_var('EXT_SUFFIX')
PY_INC = sysconfig.get_config_var('INCLUDEPY')
CACHE = os.environ.get('VERIF_OBJCACHE', '/var/tmp/verif-objcache')
CACHE_MAX_BYTES = 600 * 1024 * 1024
GEN_FALLBACK = os.environ.get('VERIF_GEN_FALLBACK', '')

PY_CFLAGS = ['-fno-strict-overflow', '-DNDEBUG', '-O3', '-fPIC', '-w']
WARN = ['-Wno-unused-function', '-Wno-unreachable-code', '-Wno-sign-compare']
OMP_OPT = ['-fopenmp', '-msse2', '-mssse3', '-O3', '-funroll-loops']
CXXSTD = ['--std=c++11']


def _np_inc():
    import numpy
    return numpy.get_include()


# name -> spec.  'gen' = generated Cython file (never instrumented), 'kern' = hand-written kernels
EXTS = {
    'mdtraj/formats/xtc': dict(
        lang='c', omp=False,
        gen=['mdtraj/formats/xtc/xtc.c'],
        kern=['mdtraj/formats/xtc/src/xdrfile.c', 'mdtraj/formats/xtc/src/xdr_seek.c',
              'mdtraj/formats/xtc/src/xdrfile_xtc.c'],
        inc=['mdtraj/formats/xtc/include', 'mdtraj/formats/xtc']),
    'mdtraj/formats/trr': dict(
        lang='c', omp=False,
        gen=['mdtraj/formats/xtc/trr.c'],
        kern=['mdtraj/formats/xtc/src/xdrfile.c', 'mdtraj/formats/xtc/src/xdr_seek.c',
              'mdtraj/formats/xtc/src/xdrfile_trr.c'],
        inc=['mdtraj/formats/xtc/include', 'mdtraj/formats/xtc']),
    'mdtraj/formats/dcd': dict(
        lang='c', omp=False,
        gen=['mdtraj/formats/dcd/dcd.c'],
        kern=['mdtraj/formats/dcd/src/dcdplugin.c'],
        inc=['mdtraj/formats/dcd/include', 'mdtraj/formats/dcd']),
    'mdtraj/formats/dtr': dict(
        lang='c++', omp=False, defs=['-DDESRES_READ_TIMESTEP2=1'],
        gen=['mdtraj/formats/dtr/dtr.cpp'],
        kern=['mdtraj/formats/dtr/src/dtrplugin.cxx'],
        inc=['mdtraj/formats/dtr/include', 'mdtraj/formats/dtr']),
    'mdtraj/_rmsd': dict(
        lang='c++', omp=True,
        gen=['mdtraj/rmsd/_rmsd.cpp'],
        kern=['mdtraj/rmsd/src/theobald_rmsd.cpp', 'mdtraj/rmsd/src/rotation.cpp',
              'mdtraj/rmsd/src/center.cpp'],
        inc=['mdtraj/rmsd/include']),
    'mdtraj/_lprmsd': dict(
        lang='c++', omp=True,
        gen=['mdtraj/rmsd/_lprmsd.cpp'],
        kern=['mdtraj/rmsd/src/theobald_rmsd.cpp', 'mdtraj/rmsd/src/rotation.cpp',
              'mdtraj/rmsd/src/center.cpp', 'mdtraj/rmsd/src/fancy_index.cpp',
              'mdtraj/rmsd/src/Munkres.cpp', 'mdtraj/rmsd/src/euclidean_permutation.cpp'],
        inc=['mdtraj/rmsd/include']),
    'mdtraj/geometry/_geometry': dict(
        lang='c++', omp=True,
        gen=['mdtraj/geometry/src/_geometry.cpp'],
        kern=['mdtraj/geometry/src/sasa.cpp', 'mdtraj/geometry/src/dssp.cpp',
              'mdtraj/geometry/src/geometry.cpp'],
        inc=['mdtraj/geometry/include', 'mdtraj/geometry/src/kernels']),
    'mdtraj/geometry/drid': dict(
        lang='c++', omp=True,
        gen=['mdtraj/geometry/drid.cpp'],
        kern=['mdtraj/geometry/src/dridkernels.cpp', 'mdtraj/geometry/src/moments.cpp'],
        inc=['mdtraj/geometry/include']),
    'mdtraj/geometry/neighbors': dict(
        lang='c++', omp=True,
        gen=['mdtraj/geometry/neighbors.cpp'],
        kern=['mdtraj/geometry/src/neighbors.cpp'],
        inc=['mdtraj/geometry/include']),
    'mdtraj/geometry/neighborlist': dict(
        lang='c++', omp=True,
        gen=['mdtraj/geometry/neighborlist.cpp'],
        kern=['mdtraj/geometry/src/neighborlist.cpp'],
        inc=['mdtraj/geometry/include']),
}

FORMAT_EXTS = ['mdtraj/formats/xtc', 'mdtraj/formats/trr', 'mdtraj/formats/dcd', 'mdtraj/formats/dtr']
OMP_EXTS = ['mdtraj/_rmsd', 'mdtraj/_lprmsd', 'mdtraj/geometry/_geometry', 'mdtraj/geometry/drid',
            'mdtraj/geometry/neighbors', 'mdtraj/geometry/neighborlist']
ALL_EXTS = FORMAT_EXTS + OMP_EXTS

# kernels that must never be instrumented with yield points (none at present besides generated code)
NO_INSTRUMENT = set()


class BuildError(Exception):
    pass


def _sha(*chunks):
    h = hashlib.sha256()
    for c in chunks:
        if isinstance(c, str):
            c = c.encode()
        h.update(c)
        h.update(b'\0')
    return h.hexdigest()


_hdr_cache = {}


def _headers_digest(repo, incs, srcdir):
    key = (repo, tuple(incs), srcdir)
    if key in _hdr_cache:
        return _hdr_cache[key]
    h = hashlib.sha256()
    dirs = [os.path.join(repo, d) for d in incs] + [os.path.join(repo, srcdir)]
    seen = set()
    for d in dirs:
        if not os.path.isdir(d):
            continue
        for root, _, files in sorted(os.walk(d)):
            for fn in sorted(files):
                if fn.endswith(('.h', '.hpp', '.hxx', '.inc')):
                    p = os.path.join(root, fn)
                    if p in seen:
                        continue
                    seen.add(p)
                    h.update(os.path.relpath(p, repo).encode())
                    with open(p, 'rb') as f:
                        h.update(f.read())
    _hdr_cache[key] = h.hexdigest()
    return _hdr_cache[key]


def _gcc_version():
    return subprocess.run(['gcc', '-dumpfullversion'], capture_output=True, text=True).stdout.strip()


def _cache_trim():
    try:
        ents = []
        tot = 0
        for fn in os.listdir(CACHE):
            p = os.path.join(CACHE, fn)
            st = os.stat(p)
            ents.append((st.st_mtime, st.st_size, p))
            tot += st.st_size
        if tot > CACHE_MAX_BYTES:
            ents.sort()
            for _, sz, p in ents:
                os.unlink(p)
                tot -= sz
                if tot < CACHE_MAX_BYTES * 0.7:
                    break
    except OSError:
        pass


def _compile(repo, src, lang, flags, incs, objdir, gccv):
    """Compile one TU (with a content-addressed cache).  Returns the object path."""
    sp = os.path.join(repo, src)
    if not os.path.exists(sp) and GEN_FALLBACK and os.path.exists(os.path.join(GEN_FALLBACK, src)):
        sp = os.path.join(GEN_FALLBACK, src)     # generated (git-ignored) Cython output of a snapshot lives in the main tree
    if not os.path.exists(sp):
        raise BuildError('missing source %s (generated Cython output cannot be re-derived: no Cython here)' % sp)
    with open(sp, 'rb') as f:
        body = f.read()
    hd = _headers_digest(repo, incs, os.path.dirname(src))
    key = _sha(body, hd, ' '.join(flags), lang, gccv, src)
    obj = os.path.join(objdir, key[:24] + '.o')
    cached = os.path.join(CACHE, key + '.o')
    if os.path.exists(cached):
        try:
            shutil.copyfile(cached, obj)
            os.utime(cached, None)
            return obj
        except OSError:
            pass
    cc = 'gcc' if lang == 'c' else 'g++'
    cmd = [cc, '-c', sp, '-o', obj] + flags + ['-I' + os.path.join(repo, i) for i in incs] + \
          ['-I' + PY_INC, '-I' + _np_inc()]
    r = subprocess.run(cmd, capture_output=True, text=True)
    if r.returncode != 0:
        raise BuildError('compile failed: %s\n%s' % (' '.join(cmd), r.stderr[-4000:]))
    try:
        os.makedirs(CACHE, exist_ok=True)
        tmp = cached + '.%d.tmp' % os.getpid()
        shutil.copyfile(obj, tmp)
        os.replace(tmp, cached)
    except OSError:
        pass
    return obj


def _ignore(dirpath, names):
    out = []
    for n in names:
        if n == '__pycache__' or n.endswith(('.c', '.cpp', '.cxx', '.so', '.o', '.pyc', '.h', '.hpp', '.hxx',
                                             '.pyx', '.pxd', '.orig', '.rej')):
            out.append(n)
    return out


def scratch_root():
    for d in ('/dev/shm', os.environ.get('TMPDIR') or '', '/var/tmp'):
        if d and os.path.isdir(d) and os.access(d, os.W_OK):
            return d
    return tempfile.gettempdir()


def build_overlay(dest, exts=None, sim_omp=False, sim_clock=False, repo=None, log=None):
    """Create <dest>/mdtraj from the working tree of `repo`.

    exts: extension names to recompile (others are taken from the prebuilt .so in the repo, which
          is fine only for code the check does not exercise); default: all.
    sim_omp: link the OpenMP-importing extensions against csrc/simgomp.c instead of libgomp and
          add basic-block yield points (-fsanitize-coverage=trace-pc) to the hand-written kernels.
    sim_clock: link a fixed time() into the dcd extension (deterministic header remark).
    Returns a dict describing what was built.
    """
    repo = repo or REPO
    exts = list(ALL_EXTS if exts is None else exts)
    info = {'repo': repo, 'rebuilt': [], 'prebuilt': [], 'sim_omp': bool(sim_omp), 'sim_clock': bool(sim_clock),
            'cache_hits': 0}
    os.makedirs(dest, exist_ok=True)
    pkg = os.path.join(dest, 'mdtraj')
    if os.path.exists(pkg):
        shutil.rmtree(pkg)
    shutil.copytree(os.path.join(repo, 'mdtraj'), pkg, ignore=_ignore)
    objdir = os.path.join(dest, '_obj')
    os.makedirs(objdir, exist_ok=True)
    gccv = _gcc_version()

    # decide per ext: rebuild or fall back to prebuilt
    jobs = []   # (ext, src, lang, flags, incs)
    plan = {}
    for name in ALL_EXTS:
        spec = EXTS[name]
        so_name = name + EXT_SUFFIX
        have_gen = all(os.path.exists(os.path.join(repo, g)) or (GEN_FALLBACK and os.path.exists(os.path.join(GEN_FALLBACK, g)))
                       for g in spec['gen'])
        if name in exts and have_gen:
            plan[name] = []
            base = list(PY_CFLAGS) + list(spec.get('defs', []))
            if spec['omp']:
                base += OMP_OPT
            if spec['lang'] == 'c++':
                base += CXXSTD
            for s in spec['gen']:
                jobs.append((name, s, spec['lang'], base, spec['inc']))
            for s in spec['kern']:
                fl = list(base)
                if sim_omp and spec['omp'] and s not in NO_INSTRUMENT:
                    fl += ['-fsanitize-coverage=trace-pc']
                jobs.append((name, s, spec['lang'], fl, spec['inc']))
        else:
            pre = os.path.join(repo, so_name)
            if not os.path.exists(pre) and GEN_FALLBACK and os.path.exists(os.path.join(GEN_FALLBACK, so_name)):
                pre = os.path.join(GEN_FALLBACK, so_name)
            if name in exts and not have_gen:
                info.setdefault('missing_generated', []).append(name)
            if not os.path.exists(pre):
                raise BuildError('cannot build %s: generated C missing and no prebuilt %s' % (name, pre))
            os.symlink(pre, os.path.join(dest, so_name))
            info['prebuilt'].append(name)

    def run(job):
        name, s, lang, fl, incs = job
        return name, _compile(repo, s, lang, fl, incs, objdir, gccv)

    # largest TUs first
    jobs.sort(key=lambda j: -os.path.getsize(os.path.join(repo, j[1])) if os.path.exists(os.path.join(repo, j[1])) else -10 ** 7)
    with ThreadPoolExecutor(max_workers=min(16, os.cpu_count() or 4)) as ex:
        for name, obj in ex.map(run, jobs):
            plan[name].append(obj)

    extra = {}
    if sim_omp:
        extra['simgomp'] = _compile(VERIF, 'csrc/simgomp.c', 'c', ['-O2', '-fPIC', '-pthread', '-w'], [], objdir, gccv)
    if sim_clock:
        extra['simclock'] = _compile(VERIF, 'csrc/simclock.c', 'c', ['-O2', '-fPIC', '-w'], [], objdir, gccv)

    def link(name):
        spec = EXTS[name]
        so = os.path.join(dest, name + EXT_SUFFIX)
        cc = 'gcc' if spec['lang'] == 'c' else 'g++'
        cmd = [cc, '-shared', '-o', so] + plan[name]
        if spec['omp']:
            if sim_omp:
                cmd += [extra['simgomp'], '-Wl,-Bsymbolic', '-pthread']
            else:
                cmd += ['-fopenmp']
        if sim_clock and name == 'mdtraj/formats/dcd':
            cmd += [extra['simclock'], '-Wl,-Bsymbolic']
        cmd += ['-lm']
        r = subprocess.run(cmd, capture_output=True, text=True)
        if r.returncode != 0:
            raise BuildError('link failed: %s\n%s' % (' '.join(cmd), r.stderr[-4000:]))
        return name

    with ThreadPoolExecutor(max_workers=8) as ex:
        for name in ex.map(link, list(plan)):
            info['rebuilt'].append(name)

    if sim_omp:
        # the shim must satisfy every GOMP/omp symbol the extensions import
        for name in plan:
            if not EXTS[name]['omp']:
                continue
            so = os.path.join(dest, name + EXT_SUFFIX)
            r = subprocess.run(['nm', '-D', '--undefined-only', so], capture_output=True, text=True)
            bad = [l.split()[-1] for l in r.stdout.splitlines() if ('GOMP_' in l or ' omp_' in l)]
            if bad:
                raise BuildError('%s imports OpenMP symbols the simulated runtime does not define: %s' % (name, bad))
    shutil.rmtree(objdir, ignore_errors=True)
    _cache_trim()
    info['rebuilt'].sort()
    return info


if __name__ == '__main__':
    import json
    import time
    t0 = time.time()
    d = sys.argv[1]
    print(json.dumps(build_overlay(d, sim_omp='--omp' in sys.argv, sim_clock='--clock' in sys.argv), indent=1))
    print('built in %.1fs' % (time.time() - t0))
