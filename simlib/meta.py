"""Static descriptions that go into MANIFEST.json and the evidence files."""

BUILT = set()   # filled at the bottom

COMMON_ASSUMPTIONS = [
    'gcc, the /venv interpreter and libraries (numpy, PyTables/HDF5, netCDF4, scipy), libc stdio behave as themselves',
    'the generated Cython C/C++ found on disk corresponds to the .pyx files (no Cython in this sandbox to re-derive it); '
    'extension modules are recompiled from the working tree on every run',
    'a clean batch is evidence, not proof: schedules and fault sequences are sampled by a seeded search, not enumerated',
]

META = {
    'C18': dict(
        engine='E1 handle-sim', design_ref='DESIGN.md §3/C18, §2',
        technique='deterministic simulation: seeded interleaving of raw file-handle clients against a cursor reference model, ddmin-minimised replay',
        rule='one evaluation = one seeded run: 1-2 files written by mdtraj from a tagged trajectory, 1-3 raw handles, 4-30 (thorough 60) '
             'scheduler-chosen operations {read(n), read(), seek(k), seek(d,1), tell, len, reopen, gc} with or without atom_indices; '
             'after every step the result is compared with a per-handle position model (frame ids decoded from the tag, plus time and cell). '
             'distinct_nontrivial = number of distinct abstract traces (sequence of (format, op, position class, crossing-EOF, offset-cache warm, subset) tuples) '
             'among runs with >= 3 state-touching steps',
        components={'real': ['mdtraj file classes (h5, xtc, trr, dcd, nc, mdcrd, xyz, lammpstrj, dtr) rebuilt from the working tree', 'PyTables', 'netCDF4', 'libc stdio', 'file system (tmpfs)'],
                    'stub': ['scheduler (which handle steps next)'], 'not_run': ['arc (no seek/tell/len in this tree, no writer): not exercised']},
        expected_probes=['read_crossing_eof', 'read_at_eof', 'seek_after_eof', 'offset_cache_built_mid_stream',
                         'second_handle_open_on_same_file', 'read_with_atom_indices'],
        level_text='Seeded exploration of handle histories: every explored history is checked step by step against a trivial cursor model; '
                   'violations are minimised and replayed in a fresh interpreter. Histories are sequential interleavings of atomic calls, so the per-handle '
                   'sequential specification is the whole linearizability condition. Sampling, not enumeration.',
        level_note='Files are written by mdtraj itself (oracles are relative and tagged with a 50x margin over format precision); '
                   'TRR end-of-file bookkeeping is an open known finding (pyx, not rebuildable).',
        assumptions=COMMON_ASSUMPTIONS + ['files read by the handles are written by mdtraj\'s own writers; a precondition check (fresh sequential read returns frames 0..N-1) guards every run'],
    ),
    'C02': dict(
        engine='E1 handle-sim', design_ref='DESIGN.md §3/C02, §2',
        technique='deterministic simulation: seeded interleaving of iterload generators, one-shot loaders and raw handles on shared files/topologies; oracle = slice of the full load',
        rule='one evaluation = one seeded run: 1-3 files of one format, up to 6 live iterload generators stepped one next() at a time between one-shot '
             'loads (stride/atom_indices/frame/list of files, shared or fresh Topology argument) and raw-handle noise; each exhausted generator and each load is '
             'compared bit-for-bit (float32) with the corresponding slice of md.load(file). distinct_nontrivial = distinct abstract traces '
             '(format, client op, flag class) among runs with >= 3 steps. Runs with a single client are configuration sampling (counted in extra_counters.single_client_runs).',
        components={'real': ['md.load / md.load_frame / md.iterload and every format reader, rebuilt from the working tree', 'PyTables', 'netCDF4'],
                    'stub': ['scheduler (which client steps next)']},
        expected_probes=['generators_interleaved', 'list_load_shared_top_with_ai'],
        level_text='Seeded exploration of loader schedules and configurations with a relative oracle (partial load = slice of full load, bit-exact at float32); '
                   'generator termination is bounded (n_frames+5 chunks).',
        level_note='TRR stride>1 with atom_indices is left out of generation (heap overflow in trr.pyx, known finding) so that the simulator stays deterministic; '
                   'XTC/TRR/DTR pyx defects are open known findings.',
        assumptions=COMMON_ASSUMPTIONS + ['the full load md.load(file) on a fresh handle is the reference, as the property defines partial loads relative to it'],
    ),
    'C19': dict(
        engine='E2 writer/crash-sim', design_ref='DESIGN.md §3/C19',
        technique='deterministic simulation with fault injection: seeded write partitions, ragged-write faults and process-kill snapshots at every operation boundary against an accepted-frames model',
        rule='', components={}, expected_probes=[], level_text='', level_note='', assumptions=COMMON_ASSUMPTIONS,
    ),
    'C20': dict(
        engine='E3 fs-sim', design_ref='DESIGN.md §3/C20',
        technique='deterministic simulation: seeded save/open/read histories over a scratch tree against a path->bytes model with pinned clocks',
        rule='', components={}, expected_probes=[], level_text='', level_note='', assumptions=COMMON_ASSUMPTIONS,
    ),
    'C03': dict(
        engine='E4a object-history-sim', design_ref='DESIGN.md §3/C03',
        technique='deterministic simulation: seeded operation histories over a pool of live trajectories with numpy reference models and injected scribbles',
        rule='', components={}, expected_probes=[], level_text='', level_note='', assumptions=COMMON_ASSUMPTIONS,
    ),
    'C17': dict(
        engine='E4a object-history-sim', design_ref='DESIGN.md §3/C17',
        technique='deterministic simulation: seeded unit-cell assignment/transformation histories; conversion clause evaluated on every reached cell',
        rule='', components={}, expected_probes=[], level_text='', level_note='', assumptions=COMMON_ASSUMPTIONS,
    ),
    'C04': dict(
        engine='E4b topology-history-sim', design_ref='DESIGN.md §3/C04',
        technique='deterministic simulation: seeded transformation and edit histories over a pool of topologies with plain-data models',
        rule='', components={}, expected_probes=[], level_text='', level_note='', assumptions=COMMON_ASSUMPTIONS,
    ),
    'C08': dict(
        engine='E5 omp-sim', design_ref='DESIGN.md §3/C08, Appendix A',
        technique='deterministic simulation of the OpenMP team: link-time replacement of libgomp with a seeded baton scheduler, basic-block yield points, frame-schedule permutations',
        rule='', components={}, expected_probes=[], level_text='', level_note='', assumptions=COMMON_ASSUMPTIONS,
    ),
}

NOT_APPLICABLE = {
    'C01': 'save->load fidelity is a function of (trajectory, cell, format, options); it has no schedule, crash point or history, and demanding anything under injected disk faults would exceed its quantifier (inputs x configurations). Deterministic simulation has nothing to decide.',
    'C05': 'minimum-image distances are a pure function of coordinates, cell and pair list; nothing for a scheduler or fault injector to decide.',
    'C06': 'optimal-superposition RMSD is a pure function of the two conformations; its only schedule-dependent clause (independence of parallel/threads) is decided under C08.',
    'C07': 'angles and dihedrals are pure functions of coordinates, cell and index lists; no state, time, I/O or interleaving.',
    'C09': 'invariance under rigid motion / lattice shifts is a metamorphic relation over inputs; no state, time, I/O or interleaving is involved.',
    'C10': 'neighbour-set exactness is a pure function of coordinates, cell and cutoff; thread-independence of the list is decided under C08.',
    'C11': 're-imaging is a pure function of (trajectory, cell, options); the inplace=False clause is a one-call input/output relation, not a history.',
    'C12': 'quantifies over programs of the selection grammar evaluated on a topology; a parser has no schedule, fault or durable state.',
    'C13': 'SASA correctness/additivity is a pure function of structure and parameters; the between-frame carry-over it mentions is a C08 phenomenon and is decided there.',
    'C14': 'hydrogen-bond criteria are pure functions of the trajectory and thresholds.',
    'C15': 'DSSP assignment is a pure function of each frame\'s backbone.',
    'C16': 'descriptor formulas are pure functions of coordinates, masses, cell and options.',
}

BUILT.update(['C18', 'C02', 'C19', 'C20', 'C03', 'C17', 'C04', 'C08'])
