"""Static descriptions that go into MANIFEST.json and the evidence files."""

BUILT = set()   # filled at the bottom

COMMON_ASSUMPTIONS = [
    'gcc, the /venv interpreter and libraries (numpy, PyTables/HDF5, netCDF4, scipy), libc stdio behave as themselves',
    'the generated Cython C/C++ found on disk corresponds to the .pyx files (no Cython in this sandbox to re-derive it); '
    'extension modules are recompiled from the working tree on every run',
    'a clean batch is evidence, not proof: schedules and fault sequences are sampled by a seeded search, not enumerated',
]

META = {
    'C18': dict(
        engine='E1 handle-sim', design_ref='DESIGN.md §3/C18, §2',
        technique='deterministic simulation: seeded interleaving of raw file-handle clients against a cursor reference model, ddmin-minimised replay',
        rule='one evaluation = one seeded run: 1-2 files written by mdtraj from a tagged trajectory, 1-3 raw handles, 4-30 (thorough 60) '
             'scheduler-chosen operations {read(n), read(), seek(k), seek(d,1), tell, len, reopen, gc} with or without atom_indices; '
             'after every step the result is compared with a per-handle position model (frame ids decoded from the tag, plus time and cell). '
             'distinct_nontrivial = number of distinct abstract traces (sequence of (format, op, position class, crossing-EOF, offset-cache warm, subset) tuples) '
             'among runs with >= 3 state-touching steps',
        components={'real': ['mdtraj file classes (h5, xtc, trr, dcd, nc, mdcrd, xyz, lammpstrj, dtr) rebuilt from the working tree', 'PyTables', 'netCDF4', 'libc stdio', 'file system (tmpfs)'],
                    'stub': ['scheduler (which handle steps next)'], 'fixtures': ['arc: read-only copies of two repository fixtures, sequential read(n)/read() only (seek, tell, len raise NotImplementedError in this tree)']},
        expected_probes=['read_crossing_eof', 'read_at_eof', 'seek_after_eof', 'offset_cache_built_mid_stream',
                         'second_handle_open_on_same_file', 'read_with_atom_indices'],
        level_text='Seeded exploration of handle histories: every explored history is checked step by step against a trivial cursor model; '
                   'violations are minimised and replayed in a fresh interpreter. Histories are sequential interleavings of atomic calls, so the per-handle '
                   'sequential specification is the whole linearizability condition. Sampling, not enumeration.',
        level_note='Files are written by mdtraj itself (oracles are relative and tagged with a 50x margin over format precision); '
                   'TRR end-of-file bookkeeping is an open known finding (pyx, not rebuildable).',
        assumptions=COMMON_ASSUMPTIONS + ['files read by the handles are written by mdtraj\'s own writers; a precondition check (fresh sequential read returns frames 0..N-1) guards every run'],
    ),
    'C02': dict(
        engine='E1 handle-sim', design_ref='DESIGN.md §3/C02, §2',
        technique='deterministic simulation: seeded interleaving of iterload generators, one-shot loaders and raw handles on shared files/topologies; oracle = slice of the full load',
        rule='one evaluation = one seeded run: 1-3 files of one format, up to 6 live iterload generators stepped one next() at a time between one-shot '
             'loads (stride/atom_indices/frame/list of files, shared or fresh Topology argument) and raw-handle noise; each exhausted generator and each load is '
             'compared bit-for-bit (float32) with the corresponding slice of md.load(file). distinct_nontrivial = distinct abstract traces '
             '(format, client op, flag class) among runs with >= 3 steps. Runs with a single client are configuration sampling (counted in extra_counters.single_client_runs).',
        components={'real': ['md.load / md.load_frame / md.iterload and every format reader, rebuilt from the working tree', 'PyTables', 'netCDF4'],
                    'stub': ['scheduler (which client steps next)']},
        expected_probes=['generators_interleaved', 'list_load_shared_top_with_ai'],
        level_text='Seeded exploration of loader schedules and configurations with a relative oracle (partial load = slice of full load, bit-exact at float32); '
                   'generator termination is bounded (n_frames+5 chunks).',
        level_note='TRR stride>1 with atom_indices is left out of generation (heap overflow in trr.pyx, known finding) so that the simulator stays deterministic; '
                   'XTC/TRR/DTR pyx defects are open known findings.',
        assumptions=COMMON_ASSUMPTIONS + ['the full load md.load(file) on a fresh handle is the reference, as the property defines partial loads relative to it'],
    ),
    'C19': dict(
        engine='E2 writer/crash-sim', design_ref='DESIGN.md §3/C19',
        technique='deterministic simulation with fault injection: seeded write partitions, ragged-write faults and process-kill snapshots at every operation boundary against an accepted-frames model',
        rule='one evaluation = one seeded run on one streaming writer (h5 incl. append re-open, nc, dcd, xtc, trr, mdcrd, xyz, lammpstrj, gro, pdb models, dtr; with/without cell and time): '
             'the first runs enumerate EVERY ordered partition of n frames into write calls for n <= 5 (quick) / 8 (thorough) per format and cell option, the rest are random histories of '
             '{write(k), flush, h5 re-open in append mode, ragged write (changed atom count / added or dropped cell / added or dropped time)}. After every operation the durable state is '
             'snapshotted through a second descriptor (= what survives SIGKILL of the writer) and, for h5/nc/dcd/xtc, loaded and compared with the flushed frames; after close the file must '
             'load with exactly the accepted frames and bit-identically to a sibling written in one call. distinct_nontrivial = distinct abstract traces (format, op, size class, schema, mode).',
        components={'real': ['mdtraj streaming writers and loaders rebuilt from the working tree', 'PyTables/HDF5', 'netCDF4', 'xdrfile/dcdplugin stdio', 'file system (tmpfs)'],
                    'stub': ['process kill = copy of the file through a second descriptor at the operation boundary (cross-checked in the thorough tier against children that SIGKILL themselves)'],
                    'not_run': ['mdtraj.reporters classes (OpenMM not installed): their write-then-flush protocol is reproduced by the harness']},
        expected_probes=['crash_with_unflushed_tail', 'multi_call_vs_one_shot_compared', 'h5_reopen_append'],
        level_text='Exhaustive over ordered partitions up to the stated bound, seeded exploration beyond it; every crash point between operations of every explored history is judged '
                   '(flushed prefix must be recoverable, flushed-and-quiescent files must load exactly).',
        level_note='No disk-failure faults (ENOSPC/EIO/short writes): C19 promises nothing under a failing disk. XTC/TRR default times restarting per write() are open known findings (pyx).',
        assumptions=COMMON_ASSUMPTIONS + ['what another descriptor reads at an operation boundary is exactly what a SIGKILL of the writing process leaves (user-space buffers lost, kernel page cache kept)'],
    ),
    'C20': dict(
        engine='E3 fs-sim', design_ref='DESIGN.md §3/C20',
        technique='deterministic simulation: seeded save/open/read histories over a scratch tree against a path->bytes model with pinned clocks',
        rule='one evaluation = one seeded run over a scratch tree with 1-3 paths (18 extensions) and pre-existing content (absent / shorter valid / longer valid / empty / unrelated bytes / '
             'numbered restart files / dtr directory): 3-14 operations {Trajectory.save single/multi-frame, md.open(mode=w)+write+close, read entry points} with force_overwrite True/False. '
             'The whole tree is snapshotted (type, size, sha256, mtime_ns, inode) before and after every operation: refused => every pre-existing entry byte-identical; overwritten => target '
             'byte-identical to the same call at a fresh path (fallback size+loaded content where a writer embeds bytes we cannot pin, e.g. uninitialised DCD remark padding); reads => tree identical '
             'including mtime and inode. distinct_nontrivial = distinct abstract traces (extension, op, overwrite flag, frames, pre-state, outcome). schedules: none; histories over a shared tree.',
        components={'real': ['Trajectory.save / md.open / loaders for 18 extensions rebuilt from the working tree', 'file system (tmpfs)'],
                    'stub': ['wall clock / host name embedded by writers: netcdf title, xyz comment date, gzip mtime (module-attribute fakes), DCD remark (time() linked into the rebuilt dcd extension)'],
                    'not_run': ['lh5 (writer broken in the baseline)', 'gsd (package not installed)']},
        expected_probes=['overwrite_checked_against_fresh', 'overwrote_longer_file', 'fresh_compare_bytes_equal', 'open_w_overwrite_checked_against_fresh'],
        level_text='Seeded exploration of file-system histories; the oracle is a complete before/after model of the tree, so any modification of an existing entry, any remnant and any side effect of a read is visible.',
        level_note='Higher-numbered restart files left by an earlier longer save are other paths and are not judged; handles opened for write and closed without a write are not judged for replacement.',
        assumptions=COMMON_ASSUMPTIONS + ['with the pinned clocks every writer is a deterministic function of the trajectory, except the DCD header remark padding (uninitialised stack bytes), for which size+content equality is used'],
    ),
    'C03': dict(
        engine='E4a object-history-sim', design_ref='DESIGN.md §3/C03',
        technique='deterministic simulation: seeded operation histories over a pool of live trajectories with numpy reference models, injected scribbles and topology edits',
        rule='one evaluation = one seeded history of 5-25 (thorough 40) operations over a pool of <= 6 live Trajectory objects (protein-like topology with water, frames scaled differently), each paired '
             'with a numpy model: t[key] for int/negative int/slice/reversed/stepped slice/index array/bool mask, slice(copy=False) views, join/+/md.join, stack, atom_slice and remove_solvent '
             '(inplace or not), center_coordinates, superpose, xyz/time/cell assignment, observers (rmsd with and without the precentered shortcut, save, analysis calls) and injected faults '
             '(scribble into one array, rename an atom) that must not reach any other pool member. After every step every member is compared with its model; every derived object is checked for '
             'shared memory; rmsd(precentered=True) is compared with the from-scratch value on independent copies; a final sweep applies that observer to every pool member. '
             'distinct_nontrivial = distinct abstract traces (op, key kind, cache state, cell completeness).',
        components={'real': ['mdtraj.Trajectory, Topology, _rmsd kernels, savers and analysis functions rebuilt from the working tree'], 'stub': ['scheduler (which pool member and operation comes next)']},
        expected_probes=['cache_present_at_slice', 'precentered_shortcut_taken', 'final_sweep_shortcut_taken', 'cache_present_at_inplace_atom_slice', 'view_checked_and_dropped'],
        level_text='Seeded exploration of operation histories with a step-by-step reference model; staleness of the hidden RMSD-trace cache is observed only through the public rmsd(precentered=True) result.',
        level_note='User in-place writes into t.xyz[...] are outside the operation set (documented unsafe); stack may share time/cell arrays with its left operand (allowed by the statement).',
        assumptions=COMMON_ASSUMPTIONS + ['documented in-place operations (rmsd without atom_indices centres target and reference frame, center_coordinates, superpose(self), inplace=True variants) are mirrored in the model'],
    ),
    'C17': dict(
        engine='E4a object-history-sim', design_ref='DESIGN.md §3/C17',
        technique='deterministic simulation: seeded unit-cell assignment/transformation histories; conversion clause evaluated on every reached cell',
        rule='one evaluation = one seeded history over the same pool machine as C03 with a cell-focused operation mix: unitcell_vectors = V / R.V for a seeded rotation / None / zeros, '
             'unitcell_lengths = L / None, unitcell_angles = A / None in every order (half-set cells are reached), slicing, join, stack, atom_slice, save+load through the formats that store a cell. '
             'Cells come from {cubic, orthorhombic, monoclinic, hexagonal 60/120, truncated octahedron, rhombic dodecahedron, random triclinic, near-degenerate}, per-frame varying. '
             'After every step: vectors is None <=> lengths or angles missing; results have a complete per-frame cell exactly when the input had; on every complete cell the vectors have the stored lengths and '
             'angles (alpha between b,c; beta between c,a; gamma between a,b), standard orientation, positive volume, volumes = triple product = analytic value. '
             'The conversion clause is a pure function of the cell: for it this check is configuration sampling riding on the history machine, not a schedule/fault search.',
        components={'real': ['mdtraj.Trajectory cell properties, mdtraj.utils.unitcell, savers/loaders rebuilt from the working tree'], 'stub': ['scheduler']},
        expected_probes=['half_set_cell_reached', 'cell_conversion_checked', 'rotated_vectors_assigned', 'vectors_zero_assignment'],
        level_text='Seeded exploration of cell assignment histories (history clause) plus evaluation of the conversion clause on every cell those histories reach.',
        level_note='Whether a writer refuses a half-set cell or silently writes none is not judged (both satisfy the statement).',
        assumptions=COMMON_ASSUMPTIONS + ['float32-sized tolerances: lengths 3e-5 relative, angles 0.02 degree, volumes 1e-4 relative (2e-3 against the analytic formula)'],
    ),
    'C04': dict(
        engine='E4b topology-history-sim', design_ref='DESIGN.md §3/C04',
        technique='deterministic simulation: seeded transformation and edit histories over a pool of topologies with plain-data models',
        rule='one evaluation = one seeded history of 4-22 (thorough 34) operations over a pool of <= 6 live Topology objects (multi-chain with repeated/None chain ids, repeated/zero/negative resSeq, '
             'non-contiguous serials, virtual sites, typed and ordered bonds across residues and chains), each paired with a plain-data model: copy / copy.copy / deepcopy / pickle / subset / join / '
             'Trajectory slice, atom_slice, stack / to_dataframe+from_dataframe / save+load through .h5 and .pdb, interleaved with edits injected on either side (renames, add_bond, add_atom, '
             'insert_atom, delete_atom_by_index, add_residue, add_chain) and ==/hash law checks. After every step EVERY pool member is re-extracted and compared with its model and checked for '
             'structural consistency (contiguous indices, every bond end is an atom of this topology). Carrier round trips are compared attribute by attribute; losses inside the measured '
             'carrier limits of that input are classified expect=limit (open known findings), anything else expect=kept (violation). distinct_nontrivial = distinct abstract traces (op, mode).',
        components={'real': ['mdtraj.Topology and friends, HDF5 topology JSON, PDB writer/reader, pandas conversion, rebuilt/copied from the working tree'], 'stub': ['scheduler']},
        expected_probes=['proper_subset', 'subset_emptied_a_residue', 'subset_emptied_a_chain', 'deleted_atom_had_bonds', 'equal_pair_checked'],
        level_text='Seeded exploration of transformation/edit histories against a trivial data model; independence of copies is decided by re-comparing all pool members after each injected edit.',
        level_note='Bond type/order are dropped for the h5 and pdb carriers (the formats cannot hold them, which the statement allows).',
        assumptions=COMMON_ASSUMPTIONS + ['carrier limit table (simlib/engines/e4b_top.py carrier_limits) is part of the trusted base and is printed with every carrier finding'],
    ),
    'C08': dict(
        engine='E5 omp-sim', design_ref='DESIGN.md §3/C08, Appendix A',
        technique='deterministic simulation of the OpenMP team: link-time replacement of libgomp with a seeded baton scheduler, basic-block yield points, frame-schedule permutations',
        rule='one evaluation = one seeded run: a protein fragment trajectory (4-9 residues of 2EQQ, 1-12 frames scaled differently, optional cell), 3-6 of 33 per-frame analyses '
             '(distances, displacements, angles, dihedrals, phi/psi/chi1, rmsd parallel/serial/precentered/atom subset, lprmsd, centring, superposition, SASA atom/residue, DSSP, Kabsch-Sander, '
             'Wernet-Nilsson, neighbours, neighbour list, contacts, DRID, Rg, centre of mass, gyration/inertia tensors, principal moments; rmsf for the thread clause only). The five extensions that '
             'import libgomp run under csrc/simgomp.c: 2-4 sampled (team size in {1,2,3,5,8,16,n_frames+3}, per-yield switch probability in {0,1e-8..1e-4}, scheduler seed) schedules must give '
             'results bit-identical to team size 1 and to a repetition; frame contexts {each frame alone, permutation, sub-selection, repetition, split into consecutive calls} must give for frame i '
             'the value of f(traj[i])[0] (bit-exact for compiled per-frame kernels, 1e-5/1e-11 relative for numpy reductions over the frame axis). Every evaluation gets fresh input copies. '
             'distinct_nontrivial = distinct abstract traces (function, clause, team, switching on/off, team<frames).',
        components={'real': ['all mdtraj kernels (sasa.cpp, geometry.cpp, dssp.cpp, neighborlist.cpp, center/theobald/rotation, Cython prange bodies of _rmsd and drid) recompiled from the working tree', 'Python wrappers'],
                    'stub': ['OpenMP runtime: GOMP_parallel, GOMP_barrier, omp_get_num_threads, omp_get_thread_num (csrc/simgomp.c); yield points from -fsanitize-coverage=trace-pc on the hand-written kernel files']},
        expected_probes=['parallel_region_entered', 'thread_handles_two_frames', 'team_larger_than_frames', 'switch_inside_region', 'barrier_reached'],
        level_text='Seeded exploration of team sizes, thread interleavings (at basic-block granularity in the hand-written kernels, kernel-call granularity in Cython prange bodies) and frame schedules; '
                   'one seed is one exactly repeatable interleaving (trace hash in the run log).',
        level_note='All loops are schedule(static), so OMP_SCHEDULE has no effect and is not sampled; races inside one basic block are not reachable (TSan territory).',
        assumptions=COMMON_ASSUMPTIONS + ['gcc lowers the static schedule inline from omp_get_num_threads/omp_get_thread_num; the build fails if an extension imports any other GOMP/omp symbol'],
    ),
}

NOT_APPLICABLE = {
    'C01': 'save->load fidelity is a function of (trajectory, cell, format, options); it has no schedule, crash point or history, and demanding anything under injected disk faults would exceed its quantifier (inputs x configurations). Deterministic simulation has nothing to decide.',
    'C05': 'minimum-image distances are a pure function of coordinates, cell and pair list; nothing for a scheduler or fault injector to decide.',
    'C06': 'optimal-superposition RMSD is a pure function of the two conformations; its only schedule-dependent clause (independence of parallel/threads) is decided under C08.',
    'C07': 'angles and dihedrals are pure functions of coordinates, cell and index lists; no state, time, I/O or interleaving.',
    'C09': 'invariance under rigid motion / lattice shifts is a metamorphic relation over inputs; no state, time, I/O or interleaving is involved.',
    'C10': 'neighbour-set exactness is a pure function of coordinates, cell and cutoff; thread-independence of the list is decided under C08.',
    'C11': 're-imaging is a pure function of (trajectory, cell, options); the inplace=False clause is a one-call input/output relation, not a history.',
    'C12': 'quantifies over programs of the selection grammar evaluated on a topology; a parser has no schedule, fault or durable state.',
    'C13': 'SASA correctness/additivity is a pure function of structure and parameters; the between-frame carry-over it mentions is a C08 phenomenon and is decided there.',
    'C14': 'hydrogen-bond criteria are pure functions of the trajectory and thresholds.',
    'C15': 'DSSP assignment is a pure function of each frame\'s backbone.',
    'C16': 'descriptor formulas are pure functions of coordinates, masses, cell and options.',
}

# dimensions added after the first rounds of seeded changes (DESIGN.md section 10): what the generators vary besides the schedule
_MORE = {
    'C18': ' Files are also rewritten value for value into dialects other programs write (simlib/foreign.py): big-endian DCD, fixed-atom DCD, '
           'double- or single-precision TRR carrying velocities/forces, XYZ with blank comment lines; LAMMPS dumps in other column layouts with unsorted atom lines; '
           'extension aliases and gz variants; atom_indices as arrays or slice objects; end-relative seeks where offered.',
    'C02': ' File names are handed over as str or pathlib.Path; files also come in the dialects of simlib/foreign.py (big-endian / fixed-atom DCD, double-precision TRR with '
           'velocities and forces, blank XYZ comments, GRO velocity columns) and in other LAMMPS column layouts.',
    'C19': ' Cells may be orthorhombic, triclinic, or change kind from frame to frame; write calls may carry zero frames, a single frame without the frame axis, or '
           'non-contiguous float64 views; one run in eight executes under python -O.',
    'C20': ' Names may be mixed-case, dotted, contain blanks; paths may be relative or pathlib.Path objects; the overwrite flag is a bool, numpy bool or int; '
           'saved trajectories have 0..12 frames; numbered restart files may pre-exist completely or partly.',
    'C03': ' Index keys include Python and numpy integer scalars of either sign, 0-d arrays, slices with negative bounds, reversed and stepped slices, lists, ranges, '
           'integer arrays with negative entries, boolean masks and Ellipsis.',
    'C17': ' Cell lengths/angles are assigned as arrays, nested lists or (single frame) without the frame axis; saves go through every cell-carrying format, restart formats '
           'with one frame or all frames (numbered files), and through foreign dialects of the saved file (big-endian DCD, double-precision TRR, GRO with velocities).',
    'C04': ' For PDB files the bonds that must be stored as CONECT records (at least one atom outside the writer\'s list of standard residues) are compared on their own, '
           'also when standard-named residues put the rest of the topology inside the recorded carrier limits.',
    'C08': ' A quarter of the trajectories contain one degenerate frame (all zeros, or a carbonyl O placed on its C); about one run in eighty is a long trajectory of the whole '
           'molecule (240-420 frames, result arrays beyond 2^24 elements) judged on a sample of frames.',
}
_MORE2 = {
    'C18': ' Reads are issued as read() or through the handle\'s read_as_traj(); DCD header counters may be stale; NetCDF comes in AMBER\'s own layout, the classic / 64-bit / HDF5-based '
           'container or with packed (scale_factor) variables; DTR is also read as a .stk stack of two overlapping frame sets; about one file in eighty has 4100-6000 frames.',
    'C02': ' List loads also run over the parts of a restarted run (a file beginning with the frame its predecessor ends with) with discard_overlapping_frames; single-frame restart files '
           '(.rst7/.restrt/.inpcrd/.ncrst) are loaded with what their loaders offer (atom subsets, lists).',
    'C19': ' The output path may already hold a longer file of the same format or unrelated bytes; a refused ragged call may be repeated; HDF5 files may carry the reporter fields '
           '(velocities, energies, temperature) as part of the schema; 3 % of the write calls carry 20-150 frames; the first call may carry none.',
    'C20': ' Paths may be symbolic links, or reach the file through a linked directory and "..", the optional netCDF4 package may be hidden (scipy.io fallback), saved trajectories may '
           'have no unit cell.',
    'C03': ' Joins are also made with check_topology=False; remove_solvent with exclude=; coordinates are also written in place (t.xyz[...] += shift) between centrings.',
    'C17': ' Savers are also called with their format keywords (pdb header/ter/bfactors, gro precision); TRR dialects include virial and pressure tensors.',
    'C08': ' 30 % of the trajectories tumble (every frame in another orientation, some exact half-turns); superposition is also run with the reference inside the mobile trajectory.',
}
_MORE3 = {
    'C18': ' atom_indices may be unsorted or contain a repeat; relative seeks may land exactly on len (refusal = not offered).',
    'C19': ' For PDB, coordinates that do not fit the topology handed over with them are offered at any point, also as the first call.',
    'C20': ' Saves also go through the format\'s own save_xxx method, on names the registry cannot dispatch on (other suffix, other case, none).',
    'C03': ' In-place changes also go through the setter with the object\'s own array (t.xyz += shift).',
    'C17': ' mdtraj.utils.lengths_and_angles_to_tilt_factors is held against the components of unitcell_vectors.',
    'C04': ' Chain ids include the blank id.',
    'C08': ' Whole-trajectory evaluations share one Topology object for the length of a run; all other evaluations get copies.',
}
for _k, _v in _MORE3.items():
    _MORE2[_k] = _MORE2.get(_k, '') + _v
for _k, _v in _MORE2.items():
    _MORE[_k] = _MORE.get(_k, '') + _v
for _k, _v in _MORE.items():
    META[_k]['rule'] += _v
META['C18']['assumptions'] = COMMON_ASSUMPTIONS + ['files read by the handles are written by mdtraj\'s own writers and, for the foreign dialects, rewritten byte for byte by '
                                                   'simlib/foreign.py from those; a precondition check (fresh sequential read returns frames 0..N-1) guards every run']

BUILT.update(['C18', 'C02', 'C19', 'C20', 'C03', 'C17', 'C04', 'C08'])
