"""Static descriptions that go into the evidence files."""
META = {}
