"""Worker side of the harness: run loop, digests, minimiser.  (Driver side: driver.py)

An engine module provides
    generate(check, rng, tier, run_index) -> case (JSON-able dict with key 'ops': list)
    execute(check, case, workdir)          -> Result
    shrink_world(check, case)              -> iterable of simpler cases (optional)
"""
import fnmatch
import hashlib
import importlib
import json
import os
import shutil
import sys
import time
import traceback

from .prng import Rng, derive

ENGINE_OF = {
    'C18': 'e1_handles', 'C02': 'e1_handles',
    'C19': 'e2_writer',
    'C20': 'e3_fs',
    'C03': 'e4a_traj', 'C17': 'e4a_traj',
    'C04': 'e4b_top',
    'C08': 'e5_omp',
}


class Result(object):
    __slots__ = ('log', 'violations', 'probes', 'faults', 'trace', 'steps', 'not_offered', 'extra')

    def __init__(self):
        self.log = []           # one line per step: op + abstract outcome (no paths, no addresses)
        self.violations = []    # dicts: signature, step, detail
        self.probes = {}
        self.faults = {}
        self.trace = []         # abstract transitions (hashable tuples / strings)
        self.steps = 0
        self.not_offered = {}
        self.extra = {}

    def probe(self, name, n=1):
        self.probes[name] = self.probes.get(name, 0) + n

    def fault(self, name, n=1):
        self.faults[name] = self.faults.get(name, 0) + n

    def skip(self, name):
        self.not_offered[name] = self.not_offered.get(name, 0) + 1

    def violate(self, signature, step, detail):
        self.violations.append({'signature': signature, 'step': step, 'detail': detail})
        self.log.append('!! %s @%s' % (signature, step))

    def digest(self):
        h = hashlib.sha256()
        for l in self.log:
            h.update(l.encode('utf-8', 'replace'))
            h.update(b'\n')
        return h.hexdigest()[:20]

    def signatures(self):
        return [v['signature'] for v in self.violations]


def engine_for(check):
    return importlib.import_module('simlib.engines.' + ENGINE_OF[check])


def run_seed(verif_seed, check, i):
    return derive(verif_seed, check, i)


class Sandbox(object):
    """per-run scratch directory with deterministic names"""

    def __init__(self, root):
        self.root = root
        self.n = 0

    def fresh(self):
        self.n += 1
        d = os.path.join(self.root, 'r%d' % self.n)
        if os.path.exists(d):
            shutil.rmtree(d, ignore_errors=True)
        os.makedirs(d)
        return d

    def drop(self, d):
        shutil.rmtree(d, ignore_errors=True)


def execute_case(eng, check, case, sandbox):
    d = sandbox.fresh()
    try:
        try:
            res = eng.execute(check, case, d)
        except Exception:
            # a harness exception is not a violation of the property; it is classified apart
            res = Result()
            res.extra['harness_error'] = traceback.format_exc()
            res.log.append('HARNESS-ERROR')
        return res
    finally:
        sandbox.drop(d)


def minimise(eng, check, case, signature, sandbox, budget_s=25.0, max_exec=400):
    """ddmin over case['ops'] then engine world shrinks, while `signature` persists."""
    t0 = time.time()
    nexec = [0]

    def fails(c):
        if time.time() - t0 > budget_s or nexec[0] >= max_exec:
            return False
        nexec[0] += 1
        r = execute_case(eng, check, c, sandbox)
        return signature in r.signatures()

    def with_ops(c, ops):
        c2 = dict(c)
        c2['ops'] = ops
        return c2

    cur = case
    changed = True
    while changed and time.time() - t0 < budget_s:
        changed = False
        # 1. truncate after the violating step, then ddmin
        ops = list(cur['ops'])
        n = 2
        while len(ops) >= 1 and time.time() - t0 < budget_s:
            chunk = max(1, len(ops) // n)
            reduced = False
            i = 0
            while i < len(ops):
                cand = ops[:i] + ops[i + chunk:]
                if fails(with_ops(cur, cand)):
                    ops = cand
                    reduced = True
                    changed = True
                else:
                    i += chunk
            if not reduced:
                if chunk == 1:
                    break
                n = min(len(ops), n * 2)
            else:
                n = max(2, n - 1)
            if len(ops) == 0:
                break
        cur = with_ops(cur, ops)
        # 2. engine-specific simplifications (arguments, world)
        sw = getattr(eng, 'shrink_world', None)
        if sw is not None:
            progress = True
            while progress and time.time() - t0 < budget_s:
                progress = False
                for cand in sw(check, cur):
                    if fails(cand):
                        cur = cand
                        progress = True
                        changed = True
                        break
    return cur, nexec[0]


def worker_main(argv):
    """argv: json spec file.  Writes json result file."""
    import faulthandler
    spec = json.load(open(argv[0]))
    check = spec['check']
    tier = spec['tier']
    seed = spec['seed']
    out = spec['out']
    scratch = spec['scratch']
    faulthandler.enable()
    eng = engine_for(check)
    sandbox = Sandbox(scratch)
    os.makedirs(scratch, exist_ok=True)
    progress_path = out + '.progress'

    if spec.get('mode') == 'replay':
        case = spec['case']
        if hasattr(eng, 'setup_worker'):
            eng.setup_worker(check, spec)
        # histories that ran earlier in the same interpreter (state shared across histories: process-global caches,
        # registries, static variables in the extension modules) are regenerated from their run indices and replayed first
        for j in spec.get('prior', []):
            pc = eng.generate(check, Rng(run_seed(spec['prior_seed'], check, j)), spec['prior_tier'], j)
            execute_case(eng, check, pc, sandbox)
        res = execute_case(eng, check, case, sandbox)
        json.dump({'violations': res.violations, 'digest': res.digest(), 'log': res.log,
                   'harness_error': res.extra.get('harness_error')}, open(out, 'w'))
        return 0

    if hasattr(eng, 'setup_worker'):
        eng.setup_worker(check, spec)
    indices = spec['indices']
    known_patterns = spec.get('known_patterns', [])
    per_run_cap = spec.get('per_run_cap_s', 60)
    agg = {'runs': 0, 'steps': 0, 'digests': {}, 'traces': [], 'probes': {}, 'faults': {}, 'not_offered': {},
           'violations': {}, 'violation_counts': {}, 'harness_errors': [], 'samples': [], 'transitions': [],
           'extra': {}, 'nontrivial': 0}
    traces = set()
    transitions = set()
    t_start = time.time()
    deadline = spec.get('deadline_s')
    executed = []
    n_minimised = [0]
    for i in indices:
        if deadline and time.time() - t_start > deadline:
            agg['extra']['stopped_at_deadline'] = True
            break
        faulthandler.dump_traceback_later(per_run_cap, exit=True)
        with open(progress_path, 'w') as pf:
            pf.write(str(i))
        rs = run_seed(seed, check, i)
        rng = Rng(rs)
        case = eng.generate(check, rng, tier, i)
        res = execute_case(eng, check, case, sandbox)
        faulthandler.cancel_dump_traceback_later()
        prior = list(executed)
        executed.append(i)
        agg['runs'] += 1
        agg['steps'] += res.steps
        agg['digests'][str(i)] = res.digest()
        if res.extra.get('harness_error'):
            if len(agg['harness_errors']) < 5:
                agg['harness_errors'].append({'run': i, 'error': res.extra['harness_error'], 'case': case})
            continue
        for k, v in res.probes.items():
            agg['probes'][k] = agg['probes'].get(k, 0) + v
        for k, v in res.faults.items():
            agg['faults'][k] = agg['faults'].get(k, 0) + v
        for k, v in res.not_offered.items():
            agg['not_offered'][k] = agg['not_offered'].get(k, 0) + v
        for k, v in res.extra.items():
            if isinstance(v, (int, float)):
                agg['extra'][k] = agg['extra'].get(k, 0) + v
        if len(res.trace) >= 3:
            th = hashlib.sha256(repr(res.trace).encode()).hexdigest()[:16]
            traces.add(th)
        for tr in res.trace:
            transitions.add(tr if isinstance(tr, str) else repr(tr))
        if len(agg['samples']) < 2 and len(case.get('ops', [])) >= 3:
            agg['samples'].append({'run_index': i, 'run_seed': rs, 'case': case, 'log': res.log[:60]})
        seen = set()
        for v in res.violations:
            sig = v['signature']
            agg['violation_counts'][sig] = agg['violation_counts'].get(sig, 0) + 1
            if sig in seen or sig in agg['violations']:
                continue
            seen.add(sig)
            if any(fnmatch.fnmatchcase(sig, pat) for pat in known_patterns):
                # an open known finding: counted, example kept, not minimised
                agg['violations'][sig] = {
                    'signature': sig, 'run_index': i, 'run_seed': rs, 'case': case,
                    'original_ops': len(case.get('ops', [])), 'minimised_ops': len(case.get('ops', [])),
                    'minimiser_executions': 0, 'detail': v['detail'], 'step': v['step'],
                    'digest': res.digest(), 'log': res.log[-40:]}
                continue
            if n_minimised[0] >= spec.get('max_minimised_per_worker', 3):
                small, nexec = case, 0      # enough minimised examples from this worker: keep the history as it ran
            else:
                n_minimised[0] += 1
                faulthandler.dump_traceback_later(per_run_cap * 6, exit=True)
                small, nexec = minimise(eng, check, case, sig, sandbox,
                                        budget_s=spec.get('minimise_budget_s', 8.0))
                faulthandler.cancel_dump_traceback_later()
            r2 = execute_case(eng, check, small, sandbox)
            det = [x for x in r2.violations if x['signature'] == sig]
            agg['violations'][sig] = {
                'signature': sig, 'run_index': i, 'run_seed': rs, 'case': small, 'original_case': case, 'prior_indices': prior,
                'original_ops': len(case.get('ops', [])), 'minimised_ops': len(small.get('ops', [])),
                'minimiser_executions': nexec,
                'detail': (det[0]['detail'] if det else v['detail']), 'step': (det[0]['step'] if det else v['step']),
                'digest': r2.digest(), 'log': r2.log[-40:],
            }
    agg['traces'] = sorted(traces)
    agg['transitions'] = sorted(transitions)
    agg['wall_s'] = time.time() - t_start
    json.dump(agg, open(out, 'w'))
    try:
        os.unlink(progress_path)
    except OSError:
        pass
    return 0


if __name__ == '__main__':
    sys.exit(worker_main(sys.argv[1:]))
