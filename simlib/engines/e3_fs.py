"""E3 fs-sim (C20): seeded save / open-for-write / read histories over a scratch tree with
pre-existing entries, judged against a path -> bytes model (whole-tree snapshot before and after
every operation).  Clocks that writers embed in their output are pinned (see setup_worker)."""
import hashlib
import os
import pathlib
import shutil
import types

import numpy as np

from ..core import Result
from .. import fmts
from . import e2_writer

SAVE_EXTS = ['xtc', 'trr', 'pdb', 'pdb.gz', 'dcd', 'h5', 'nc', 'netcdf', 'ncdf', 'ncrst', 'crd', 'mdcrd', 'lammpstrj',
             'xyz', 'xyz.gz', 'gro', 'rst7', 'dtr']
# md.open(..., 'w') + write through the E2 writer adapter
OPENW_FMT = {'xtc': 'xtc', 'trr': 'trr', 'dcd': 'dcd', 'h5': 'h5', 'nc': 'nc', 'netcdf': 'nc', 'ncdf': 'nc',
             'mdcrd': 'mdcrd', 'crd': 'mdcrd', 'lammpstrj': 'lammpstrj', 'xyz': 'xyz', 'xyz.gz': 'xyz', 'gro': 'gro',
             'pdb': 'pdb', 'pdb.gz': 'pdb', 'dtr': 'dtr'}
OPEN_ONLY = ['rst7', 'ncrst']            # file objects exist, single-frame writers
RESTART = ('rst7', 'ncrst')
SKIPPED_EXTS = {'lh5': 'writer broken in the baseline (always-fail set)', 'gsd': 'gsd package not installed'}
N_ATOMS = 5
# the format-specific savers (Trajectory.save dispatches to them by extension; called directly they take any file name)
SAVE_METHOD = {'xtc': 'save_xtc', 'trr': 'save_trr', 'pdb': 'save_pdb', 'pdb.gz': 'save_pdb', 'dcd': 'save_dcd', 'h5': 'save_hdf5',
               'nc': 'save_netcdf', 'netcdf': 'save_netcdf', 'ncdf': 'save_netcdf', 'ncrst': 'save_netcdfrst', 'crd': 'save_mdcrd',
               'mdcrd': 'save_mdcrd', 'lammpstrj': 'save_lammpstrj', 'xyz': 'save_xyz', 'xyz.gz': 'save_xyz', 'gro': 'save_gro',
               'rst7': 'save_amberrst7', 'dtr': 'save_dtr'}


def _load_named(md, ext, path, top, scratch):
    """load a file of format ext whatever it is called (a copy under a dispatchable name where the registry needs one)"""
    lf = OPENW_FMT.get(ext, ext)
    if not path.lower().endswith('.' + ext) or not path.endswith('.' + ext):
        os.makedirs(scratch, exist_ok=True)
        q = os.path.join(scratch, 'named_%d.%s' % (len(os.listdir(scratch)), ext))
        shutil.copyfile(path, q)
        path = q
    return e2_writer.load_file(md, lf, path, top)


def _save(t, path_arg, ext, via_method, **kw):
    if via_method:
        return getattr(t, SAVE_METHOD[ext])(path_arg, **kw)
    return t.save(path_arg, **kw)


def setup_worker(check, spec):
    """pin the wall clock / host name that three writers embed in their output"""
    import gzip
    import mdtraj.formats.netcdf as ncmod
    import mdtraj.formats.xyzfile as xyzmod

    class _FakeDatetime(object):
        @staticmethod
        def now():
            return '2026-01-01 00:00:00.000000'

    class _FakeDate(object):
        @staticmethod
        def today():
            return '2026-01-01'

    ncmod.datetime = _FakeDatetime
    ncmod.socket = types.SimpleNamespace(gethostname=lambda: 'simhost')
    xyzmod.date = _FakeDate
    gzip.time = types.SimpleNamespace(time=lambda: 1700000000.0)


# ------------------------------------------------------------------ generation

def generate(check, rng, tier, run_index):
    npaths = rng.randint(1, 3)
    paths = []
    for k in range(npaths):
        ext = rng.choice(SAVE_EXTS)
        pre = rng.weighted([('absent', 2), ('valid_short', 3), ('valid_long', 4), ('empty', 1), ('junk', 2)])
        stem = rng.choice(['p%d', 'p%d', 'Traj_%d', 'RUN%d', 'my.run-%d', 'run %d', 'sn%d.out'])      # upper case, dots, dashes, blanks and a second extension-like part are deliberate
        ent = {'name': (stem % k) + '.' + ext, 'ext': ext, 'pre': pre, 'pre_frames': 1 if pre == 'valid_short' else rng.randint(3, 6)}
        if ext in ('h5', 'nc', 'xtc', 'trr', 'dcd', 'gro', 'xyz', 'lammpstrj', 'mdcrd', 'pdb') and rng.chance(0.1):
            # a name the registry cannot dispatch on (other suffix, other case, none): only the format's own saver is used on it
            ent['odd'] = rng.choice(['.hdf5', '.H5'] if ext == 'h5' and rng.chance(0.6) else ['.out', '.dat', '', '.' + ext.upper()])
            ent['name'] = (stem % k) + ent['odd']
        if pre != 'absent' and ext != 'dtr' and rng.chance(0.12):
            ent['link'] = True       # what exists at the path is a symbolic link to the file (kept in another directory)
        if ext in RESTART and rng.chance(0.6):
            # numbered files name.N left by an earlier multi-frame save of n frames (zero-padded when n >= 10) -- all of
            # them, or only some (the others were deleted by the user): only the last, only one in the middle, a few
            ent['pre_numbered'] = rng.weighted([(rng.randint(2, 5), 4), (rng.randint(9, 12), 3)])
            ent['pre_numbered_keep'] = rng.weighted([('all', 3), ('last', 2), ('first', 1), ('one', 2), ('some', 2)])
            ent['pre_numbered_seed'] = rng.below(1 << 20)
        paths.append(ent)
    nops = rng.randint(3, 14 if tier == 'quick' else 25)
    ops = []
    for _ in range(nops):
        p = rng.below(npaths)
        kind = rng.weighted([('save', 10), ('open_w', 5), ('read', 6)])
        if 'odd' in paths[p]:
            kind = 'save'
        if kind == 'save':
            # zero frames: what a selection like t[t.time > tmax] hands to save() when nothing matches
            ops.append({'op': 'save', 'p': p, 'frames': rng.weighted([(1, 8), (2, 6), (3, 4), (rng.randint(4, 12), 4), (10, 2), (0, 1)]),
                        'fo': rng.chance(0.5), 'seed': rng.below(1 << 20), 'fo_as': rng.weighted([('bool', 5), ('np', 2), ('int', 1)]),
                        'cell': rng.choice([None, 'ortho', 'ortho', 'tric']),       # trajectories without a unit cell take other branches of several writers
                        'via': rng.weighted([('save', 3), ('method', 1)])})         # Trajectory.save(...) or the format's own save_xxx(...)
        elif kind == 'open_w':
            ops.append({'op': 'open_w', 'p': p, 'fo': rng.chance(0.5), 'then': rng.choice(['close', 'write_close', 'write_close']),
                        'frames': rng.randint(1, 3), 'seed': rng.below(1 << 20), 'fo_as': rng.weighted([('bool', 5), ('np', 2), ('int', 1)])})
        else:
            ops.append({'op': 'read', 'p': p, 'how': rng.choice(['load', 'load_frame', 'iterload', 'open_read', 'load_topology', 'cursor'])})
    return {'check': check, 'paths': paths, 'ops': ops, 'seed': rng.below(1 << 30), 'relative': rng.chance(0.3),
            'pathobj': rng.chance(0.25),      # paths handed over as pathlib.Path objects instead of strings
            'hide_netcdf4': rng.chance(0.25),
            # the name is reached through a symbolic link to a directory and '..' (dir/../name): the kernel resolves that to the
            # link target's parent, textual normalisation (os.path.abspath / normpath) to somewhere else
            'dotdot': rng.chance(0.15)}


# ------------------------------------------------------------------ tree model

def snapshot(root):
    out = {}
    for dirpath, dirnames, filenames in os.walk(root):
        dirnames.sort()
        rel = os.path.relpath(dirpath, root)
        if rel != '.':
            st = os.lstat(dirpath)
            out[rel] = ('d', 0, '', st.st_mtime_ns, st.st_ino)
        for fn in sorted(filenames):
            p = os.path.join(dirpath, fn)
            st = os.lstat(p)
            with open(p, 'rb') as f:
                h = hashlib.sha256(f.read()).hexdigest()
            out[os.path.normpath(os.path.join(rel, fn))] = ('f', st.st_size, h, st.st_mtime_ns, st.st_ino)
    return out


def content_diff(before, after, only=None):
    """entries of `before` whose type/size/bytes changed or vanished (mtime/inode ignored)"""
    bad = []
    for k, v in before.items():
        if only is not None and k not in only:
            continue
        w = after.get(k)
        if w is None:
            bad.append((k, 'vanished'))
        elif w[:3] != v[:3]:
            bad.append((k, 'changed' if v[0] == 'f' else 'type'))
    return bad


def full_diff(before, after):
    bad = content_diff(before, after)
    for k, v in before.items():
        w = after.get(k)
        if w is not None and w[:3] == v[:3] and v[0] == 'f' and (w[3] != v[3] or w[4] != v[4]):
            bad.append((k, 'mtime_or_inode'))
    for k in after:
        if k not in before:
            bad.append((k, 'created'))
    return bad


def _traj(n_frames, seed, cell='ortho', ext=None):
    if cell != 'ortho' and ext is not None:
        F = fmts.FORMATS.get(OPENW_FMT.get(ext, ext))
        cell = fmts.cell_for(OPENW_FMT.get(ext, ext), cell) if F is not None else cell      # what the format can carry
    t = fmts.make_traj(n_frames, N_ATOMS, cell, seed)
    return t


def _targets(path, ext, n_frames):
    """paths a save of n_frames writes"""
    if ext in RESTART and n_frames != 1:        # zero frames: no file at all
        fmt = '%s.%%0%dd' % (path, len(str(n_frames)))
        return [fmt % (i + 1) for i in range(n_frames)]
    return [path]


def _under(root, snap, path):
    """snapshot keys at or under path"""
    path = os.path.join(os.path.realpath(os.path.dirname(path) or '.'), os.path.basename(path))      # as the kernel resolves it
    rel = os.path.relpath(path, os.path.realpath(root))
    return [k for k in snap if k == rel or k.startswith(rel + os.sep)]


def _same_as_fresh(root, fresh_root, rels_pairs):
    """compare (relative) targets with their fresh twins: bytes first, then size (content judged by caller)"""
    diffs = []
    for a, b in rels_pairs:
        if os.path.isdir(a) or os.path.isdir(b):
            sa, sb = snapshot(a) if os.path.isdir(a) else None, snapshot(b) if os.path.isdir(b) else None
            if sa is None or sb is None:
                diffs.append((os.path.basename(a), 'type'))
                continue
            ka = {k: v[:3] for k, v in sa.items()}
            kb = {k: v[:3] for k, v in sb.items()}
            if ka != kb:
                extra = sorted(set(ka) - set(kb))
                diffs.append((os.path.basename(a), 'dir_differs', extra[:5]))
            continue
        if not os.path.exists(a) and not os.path.exists(b):
            continue                      # neither call left a file: the same outcome
        if not os.path.exists(a):
            diffs.append((os.path.basename(a), 'missing'))
            continue
        if not os.path.exists(b):
            diffs.append((os.path.basename(a), 'present_but_a_fresh_save_leaves_nothing'))
            continue
        with open(a, 'rb') as f:
            ba = f.read()
        with open(b, 'rb') as f:
            bb = f.read()
        if ba[4:8] == b'CORD' and bb[4:8] == b'CORD' and len(ba) >= 260 and len(bb) >= 260:
            # the two 80-character remark lines of the DCD header (bytes 100..259) are padded by the writer with whatever was
            # in its buffer (not initialised): they carry no trajectory content and are left out of the comparison
            ba = ba[:100] + b'\0' * 160 + ba[260:]
            bb = bb[:100] + b'\0' * 160 + bb[260:]
        if ba != bb:
            diffs.append((os.path.basename(a), 'bytes', len(ba), len(bb)))
    return diffs


def execute(check, case, workdir):
    import sys
    cwd = os.getcwd()
    hide = bool(case.get('hide_netcdf4'))
    saved = sys.modules.get('netCDF4', 'absent')
    if hide:
        sys.modules['netCDF4'] = None        # an installation without the optional netCDF4 package: mdtraj falls back to scipy.io
    try:
        res = _execute(check, case, workdir)
        if hide:
            res.probe('netcdf_scipy_backend')
        return res
    finally:
        if hide:
            if saved == 'absent':
                sys.modules.pop('netCDF4', None)
            else:
                sys.modules['netCDF4'] = saved
        os.chdir(cwd)


def _execute(check, case, workdir):
    import warnings
    warnings.simplefilter('ignore')
    import mdtraj as md
    res = Result()
    root = os.path.join(workdir, 'tree')
    fresh = os.path.join(workdir, 'fresh')
    os.makedirs(root)
    pathroot = root
    if case.get('relative'):
        # the user works inside the directory and names files relatively
        os.chdir(root)
        pathroot = ''
        res.probe('relative_paths')
    dirpart = pathroot
    if case.get('dotdot'):
        os.makedirs(os.path.join(root, '_deep', 'inner'))
        os.symlink(os.path.join('_deep', 'inner'), os.path.join(root, '_lnk'))
        dirpart = os.path.join(pathroot, '_lnk', '..')           # = root/_deep for the kernel, root for os.path.normpath
        res.probe('path_through_linked_directory_and_dotdot')
    top = fmts.make_topology(N_ATOMS)
    state = {}     # path index -> {'valid': bool, 'n': frames}  (what the model believes is at the path)
    link_store = {}  # path index -> the file a symbolic link at the path points to (part of "the existing file", also when overwritten)

    # ---- pre-existing entries
    for k, ent in enumerate(case['paths']):
        p = os.path.join(dirpart, ent['name'])
        ext = ent['ext']
        st = {'valid': False, 'n': 0}
        if ent['pre'] in ('valid_short', 'valid_long'):
            n = ent['pre_frames']
            if ext in RESTART:
                _save(_traj(1, 7 + k), p, ext, ('odd' in ent))
                st = {'valid': True, 'n': 1}
            else:
                _save(_traj(n, 7 + k), p, ext, ('odd' in ent))
                st = {'valid': True, 'n': n}
        if ext in RESTART and ent.get('pre_numbered'):
            npre = ent['pre_numbered']
            _traj(npre, 9 + k).save(p)                               # writes p.1 .. p.N (zero-padded for N >= 10) next to p
            names = _targets(p, ext, npre)
            keep = ent.get('pre_numbered_keep', 'all')
            r = np.random.RandomState(ent.get('pre_numbered_seed', 0))
            if keep == 'last':
                kept = names[-1:]
            elif keep == 'first':
                kept = names[:1]
            elif keep == 'one':
                kept = [names[r.randint(len(names))]]
            elif keep == 'some':
                kept = [x for x in names if r.uniform() < 0.4] or names[1:2]
            else:
                kept = names
            for x in names:
                if x not in kept and os.path.exists(x):
                    os.unlink(x)
        if ent['pre'] == 'empty':
            if ext == 'dtr':
                os.makedirs(p)
            else:
                open(p, 'wb').close()
        elif ent['pre'] == 'junk':
            if ext == 'dtr':
                os.makedirs(p)
                with open(os.path.join(p, 'unrelated.bin'), 'wb') as f:
                    f.write(bytes(range(256)) * 3)
            else:
                with open(p, 'wb') as f:
                    f.write((b'unrelated bytes \x00\x01\x02 ' * 40)[: 100 + 37 * k])
        if ent.get('link') and not case.get('dotdot') and os.path.lexists(p) and not os.path.isdir(p):
            store = os.path.join(pathroot, '_store')
            os.makedirs(store, exist_ok=True)
            os.rename(p, os.path.join(store, ent['name']))
            os.symlink(os.path.join('_store', ent['name']), p)
            link_store[k] = os.path.join(root, '_store', ent['name'])
            res.probe('path_is_a_symbolic_link')
        state[k] = st

    def viol(op, kind, detail, stepno, flags):
        d = dict(detail)
        res.violate('%s|%s|%s|%s|%s' % (check, ext, op, kind, flags), stepno, d)

    for stepno, op in enumerate(case['ops']):
        if op['p'] >= len(case['paths']):
            continue
        res.steps += 1
        ent = case['paths'][op['p']]
        ext = ent['ext']
        p = os.path.join(dirpart, ent['name'])
        # what the library is given: the string, or a pathlib.Path (the compiled file classes take strings only, so
        # md.open keeps the string for them)
        pa = pathlib.Path(p) if case.get('pathobj') else p
        po = p if OPENW_FMT.get(ext, ext) in ('xtc', 'trr', 'dcd', 'dtr') else pa
        if pa is not p:
            res.probe('path_given_as_pathlib_object')
        before = snapshot(root)
        kind = op['op']
        # the flag as the caller has it: a bool, the numpy bool a comparison returns, or an int
        fo_val = {'np': np.bool_(op.get('fo', False)), 'int': int(op.get('fo', False))}.get(op.get('fo_as'), bool(op.get('fo', False)))
        if op.get('fo_as') in ('np', 'int'):
            res.probe('overwrite_flag_not_a_python_bool')
        if kind == 'save':
            n = op['frames']
            t = _traj(n, op['seed'], op.get('cell', 'ortho'), ext)
            if t.unitcell_lengths is None:
                res.probe('saved_trajectory_without_cell')
            targets = _targets(p, ext, n)
            exists = [x for x in targets if os.path.lexists(x)]
            pre_kind = 'fresh' if not exists else ('valid' if state[op['p']]['valid'] else 'nonvalid')
            flags = 'fo=%d,%s,%s' % (op['fo'], 'multi' if n > 1 else ('single' if n else 'empty'), pre_kind)
            err = None
            try:
                via_method = ('odd' in ent) or op.get('via') == 'method'
                if via_method:
                    res.probe('saved_through_format_method')
                _save(t, pa, ext, via_method, force_overwrite=fo_val)
            except Exception as e:
                err = e
            after = snapshot(root)
            res.log.append('%d save %s n=%d fo=%d exists=%d -> %s' % (stepno, ent['name'], n, op['fo'], len(exists),
                                                                     'ok' if err is None else type(err).__name__))
            res.trace.append((ext, 'save', flags, err is None))
            if not op['fo'] and exists:
                res.fault('refused_overwrite')
                bad = content_diff(before, after)
                if err is None:
                    viol('save', 'not_refused', {'targets_existing': [os.path.basename(x) for x in exists], 'changed': bad[:5]}, stepno, flags)
                elif bad:
                    viol('save', 'modified_on_refusal', {'changed': bad[:5], 'error': type(err).__name__}, stepno, flags)
                continue
            if err is not None:
                if op['fo'] and exists:
                    viol('save', 'raises:%s' % type(err).__name__, {'message': str(err)[:300]}, stepno, flags)
                else:
                    # nothing in the way and the save failed: outside C20; keep the model honest
                    res.probe('save_failed_on_free_path')
                state[op['p']] = {'valid': False, 'n': 0}
                continue
            # a write completed: the targets must equal a save at a fresh path; nothing else may change
            if os.path.exists(fresh):
                shutil.rmtree(fresh)
            os.makedirs(fresh)
            fp = os.path.join(fresh, ent['name'])
            _save(_traj(n, op['seed'], op.get('cell', 'ortho'), ext), fp, ext, ('odd' in ent) or op.get('via') == 'method')
            ftargets = _targets(fp, ext, n)
            diffs = _same_as_fresh(root, fresh, list(zip(targets, ftargets)))
            if exists:
                res.probe('overwrite_checked_against_fresh')
                if ent['pre'] == 'valid_long' or state[op['p']]['n'] > n:
                    res.probe('overwrote_longer_file')
            if diffs:
                # fall back to size + loaded content only if the writer embeds something we could not pin
                same_content = False
                try:
                    if ext not in RESTART or n == 1:
                        a = _load_named(md, ext, p, top, os.path.join(workdir, 'named')) if ext not in RESTART else md.load(p, top=top)
                        b = _load_named(md, ext, fp, top, os.path.join(workdir, 'named')) if ext not in RESTART else md.load(fp, top=top)
                        same_content = e2_writer.same_load(a, b) is None and all(d[1] == 'bytes' and d[2] == d[3] for d in diffs)
                except Exception:
                    same_content = False
                if same_content:
                    res.probe('fresh_compare_fell_back_to_size_and_content:' + ext)
                else:
                    viol('save', 'differs_from_fresh_save', {'diffs': [list(map(str, d)) for d in diffs[:4]]}, stepno, flags)
            else:
                res.probe('fresh_compare_bytes_equal')
            mine = set()
            for x in targets:
                mine.update(_under(root, before, x))
                mine.update(_under(root, after, x))
            if op['p'] in link_store:
                mine.update(_under(root, before, link_store[op['p']]))      # an overwrite may replace the link or write through it
            others = content_diff({k: v for k, v in before.items() if k not in mine}, after)
            if others:
                viol('save', 'other_entry_modified', {'changed': others[:5]}, stepno, flags)
            was_valid = state[op['p']]['valid']
            state[op['p']] = {'valid': n > 0, 'n': n if ext not in RESTART else (1 if n == 1 else state[op['p']]['n'])}
            if n == 0:
                res.probe('zero_frame_save')
            if ext in RESTART and n != 1:
                # the numbered files were written (or nothing at all): what is at the plain name stays what it was
                state[op['p']]['valid'] = was_valid and os.path.exists(p)
        elif kind == 'open_w':
            exists = os.path.lexists(p)
            pre_kind = 'fresh' if not exists else ('valid' if state[op['p']]['valid'] else 'nonvalid')
            flags = 'fo=%d,%s,%s' % (op['fo'], op['then'], pre_kind)
            wfmt = OPENW_FMT.get(ext)
            err = None
            wrote = False
            try:
                if wfmt is not None:
                    w = e2_writer.Writer.__new__(e2_writer.Writer)
                    w.md, w.fmt, w.path, w.top, w.h, w.n_models = md, wfmt, p, top, None, 0
                    kw = {'n_atoms': N_ATOMS} if wfmt == 'mdcrd' else {}
                    w.h = md.open(po, 'w', force_overwrite=fo_val, **kw)
                    try:
                        if op['then'] == 'write_close':
                            x, tm, L, A = fmts.tagged_arrays(op['frames'], N_ATOMS, 'ortho', op['seed'])
                            if wfmt == 'h5':
                                w.h.topology = top
                            w.write(x, tm if e2_writer.CAPS[wfmt]['time'] else None, L if e2_writer.CAPS[wfmt]['cell'] else None,
                                    A if e2_writer.CAPS[wfmt]['cell'] else None)
                            wrote = True
                    finally:
                        w.close()
                else:
                    h = md.open(po, 'w', force_overwrite=fo_val)
                    try:
                        if op['then'] == 'write_close':
                            x, tm, L, A = fmts.tagged_arrays(1, N_ATOMS, 'ortho', op['seed'])
                            h.write(x[0] * 10, time=float(tm[0]), cell_lengths=L[0] * 10, cell_angles=A[0])
                            wrote = True
                    finally:
                        h.close()
            except Exception as e:
                err = e
            after = snapshot(root)
            res.log.append('%d open_w %s fo=%d then=%s exists=%d -> %s' % (stepno, ent['name'], op['fo'], op['then'], exists,
                                                                         'ok' if err is None else type(err).__name__))
            res.trace.append((ext, 'open_w', flags, err is None))
            if not op['fo'] and exists:
                res.fault('refused_open_for_write')
                bad = content_diff(before, after)
                if err is None:
                    viol('open_w', 'not_refused', {'changed': bad[:5]}, stepno, flags)
                elif bad:
                    viol('open_w', 'modified_on_refusal', {'changed': bad[:5], 'error': type(err).__name__}, stepno, flags)
                continue
            if err is not None:
                if op['fo'] and exists:
                    viol('open_w', 'raises:%s' % type(err).__name__, {'message': str(err)[:300]}, stepno, flags)
                state[op['p']] = {'valid': False, 'n': 0}
                continue
            mine = set(_under(root, before, p)) | set(_under(root, after, p))
            if op['p'] in link_store:
                mine.update(_under(root, before, link_store[op['p']]))
            others = content_diff({k: v for k, v in before.items() if k not in mine}, after)
            if others:
                viol('open_w', 'other_entry_modified', {'changed': others[:5]}, stepno, flags)
            if wrote:
                # same call sequence at a fresh path
                if os.path.exists(fresh):
                    shutil.rmtree(fresh)
                os.makedirs(fresh)
                fp = os.path.join(fresh, ent['name'])
                if wfmt is not None:
                    w2 = e2_writer.Writer.__new__(e2_writer.Writer)
                    w2.md, w2.fmt, w2.path, w2.top, w2.h, w2.n_models = md, wfmt, fp, top, None, 0
                    kw = {'n_atoms': N_ATOMS} if wfmt == 'mdcrd' else {}
                    w2.h = md.open(fp, 'w', force_overwrite=True, **kw)
                    try:
                        x, tm, L, A = fmts.tagged_arrays(op['frames'], N_ATOMS, 'ortho', op['seed'])
                        if wfmt == 'h5':
                            w2.h.topology = top
                        w2.write(x, tm if e2_writer.CAPS[wfmt]['time'] else None, L if e2_writer.CAPS[wfmt]['cell'] else None,
                                 A if e2_writer.CAPS[wfmt]['cell'] else None)
                    finally:
                        w2.close()
                else:
                    h = md.open(fp, 'w', force_overwrite=True)
                    try:
                        x, tm, L, A = fmts.tagged_arrays(1, N_ATOMS, 'ortho', op['seed'])
                        h.write(x[0] * 10, time=float(tm[0]), cell_lengths=L[0] * 10, cell_angles=A[0])
                    finally:
                        h.close()
                diffs = _same_as_fresh(root, fresh, [(p, fp)])
                if exists:
                    res.probe('open_w_overwrite_checked_against_fresh')
                if diffs:
                    same_content = False
                    try:
                        lf = OPENW_FMT.get(ext, ext)
                        a = e2_writer.load_file(md, lf, p, top) if ext not in RESTART else md.load(p, top=top)
                        b = e2_writer.load_file(md, lf, fp, top) if ext not in RESTART else md.load(fp, top=top)
                        same_content = e2_writer.same_load(a, b) is None and all(d[1] == 'bytes' and d[2] == d[3] for d in diffs)
                    except Exception:
                        same_content = False
                    if same_content:
                        res.probe('fresh_compare_fell_back_to_size_and_content:' + ext)
                    else:
                        viol('open_w', 'differs_from_fresh_write', {'diffs': [list(map(str, d)) for d in diffs[:4]]}, stepno, flags)
                else:
                    res.probe('fresh_compare_bytes_equal')
                state[op['p']] = {'valid': True, 'n': op['frames'] if wfmt is not None else 1}
            else:
                # opened and closed without a write: replacement is not judged (DCD/DTR open lazily); the model
                # no longer knows what is there
                state[op['p']] = {'valid': False, 'n': 0}
                if os.path.exists(p) and before.get(os.path.relpath(p, root), (None,))[:3] == after.get(os.path.relpath(p, root), (0,))[:3] and state is not None:
                    # left alone: still whatever it was
                    pass
        else:
            st = state[op['p']]
            if not st['valid'] or not os.path.exists(p):
                res.log.append('%d read %s skipped (nothing valid there)' % (stepno, ent['name']))
                continue
            how = op['how']
            flags = how
            lfmt = OPENW_FMT.get(ext, ext)
            kw = {} if lfmt in ('h5', 'pdb', 'gro') else {'top': top}
            err = None
            try:
                if how == 'load':
                    md.load(pa, **kw)
                elif how == 'load_frame':
                    md.load_frame(pa, 0, **kw)
                elif how == 'iterload':
                    for j, c in enumerate(md.iterload(pa, chunk=2, **kw)):
                        if j > st['n'] + 5:
                            break
                elif how == 'load_topology':
                    if lfmt in ('h5', 'pdb', 'gro'):
                        md.load_topology(pa)
                    else:
                        md.load(pa, **kw)
                elif how in ('open_read', 'cursor'):
                    okw = {'n_atoms': N_ATOMS} if lfmt == 'mdcrd' else {}
                    with md.open(po, **okw) as fh:
                        if how == 'cursor' and hasattr(fh, 'seek') and ext not in RESTART:
                            try:
                                len(fh)
                            except Exception:
                                pass
                            try:
                                fh.read(1)
                                fh.seek(0)
                                fh.tell()
                            except (NotImplementedError, AttributeError, TypeError):
                                pass
                        if hasattr(fh, 'read'):
                            fh.read()
            except NotImplementedError:
                res.skip('%s.%s' % (ext, how))
            except Exception as e:
                err = e
            after = snapshot(root)
            bad = full_diff(before, after)
            res.log.append('%d read(%s) %s -> %s' % (stepno, how, ent['name'], 'ok' if err is None else type(err).__name__))
            res.trace.append((ext, 'read', how, err is None))
            if err is not None:
                res.probe('read_raised:' + ext + ':' + type(err).__name__)
            if bad:
                viol('read', 'tree_modified_by_read', {'changed': bad[:5]}, stepno, flags)
    return res


def shrink_world(check, case):
    import copy
    if len(case['paths']) > 1:
        used = set(o['p'] for o in case['ops'])
        if (len(case['paths']) - 1) not in used:
            c = copy.deepcopy(case)
            c['paths'].pop()
            yield c
    for i, o in enumerate(case['ops']):
        if o.get('frames', 1) > 2:
            c = copy.deepcopy(case)
            c['ops'][i]['frames'] = 2
            yield c
    for k, ent in enumerate(case['paths']):
        if ent['pre'] not in ('absent', 'valid_short'):
            c = copy.deepcopy(case)
            c['paths'][k]['pre'] = 'valid_short'
            c['paths'][k]['pre_frames'] = 1
            yield c
