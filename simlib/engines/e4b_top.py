"""E4b topology-history-sim (C04): a pool of live Topology objects, each paired with a plain-data model,
driven through seeded transformation and edit histories.  After every step *every* pool member is
re-compared with its model, so an edit that leaks through shared Atom objects or lists shows up on the
untouched member."""
import copy as _copy
import os
import pickle

import numpy as np

from ..core import Result

POOL_MAX = 6
STD = ['ALA', 'GLY', 'SER', 'HOH']
NONSTD = ['LIG', 'XY1', 'MOL']
CHAIN_IDS = ['A', 'B', 'A', None, 'X', 'C', None, ' ']       # incl. the blank id load_pdb gives chains of files without chain letters
SEGS = ['', '', 'SEG1', 'PROA', 'W']
ELEMS = ['C', 'N', 'O', 'H', 'S', 'P', 'D', 'Cl', 'Na', 'Fe', 'VS']       # incl. deuterium (shares Z with H), two-letter symbols, a virtual site
BOND_TYPES = [None, 'Single', 'Double', 'Triple', 'Aromatic', 'Amide']
FF_NAMES = {'O': ['OW', 'OT1', 'OT2', 'OH2', 'OM'], 'H': ['HW1', 'HW2', 'HT1', 'HT2', 'HT3', 'HA1', 'HN', '1HB', 'H1'], 'C': ['CA', 'C', 'CB', 'CD1'],
            'N': ['N', 'NT', 'NE2'], 'VS': ['M', 'MW', 'EPW', 'LP1', 'COM', 'OM', 'DC2', 'V1'], 'S': ['SG', 'SD'], 'D': ['D1', 'DOH2']}


# ------------------------------------------------------------------ generation

def gen_model(rng, mode):
    """plain-data topology.  mode 'hostile': repeated/None chain ids, repeated/zero/negative resSeq, odd serials,
    typed bonds anywhere.  mode 'friendly': what file carriers are built for."""
    n_chains = rng.randint(1, 4 if mode == 'hostile' else 2)
    dupnames = rng.chance(0.35)
    chains, residues, atoms = [], [], []
    serial = rng.choice([1, 1, 5, 100, 0]) if mode == 'hostile' else rng.choice([1, 1, 0, 3])
    resseq = rng.choice([1, 1, 0, -2, 10])
    for c in range(n_chains):
        chains.append({'id': rng.choice(CHAIN_IDS) if mode == 'hostile' else None})
        for r in range(rng.randint(1, 3)):
            name = rng.choice(STD + NONSTD) if mode == 'hostile' else rng.choice(NONSTD)
            if mode == 'hostile':
                resseq += rng.choice([0, 1, 1, 1, 2, 5, -1])
            else:
                resseq += 1
            residues.append({'name': name, 'resSeq': resseq, 'seg': rng.choice(SEGS) if mode == 'hostile' else '', 'chain': c})
            na = rng.randint(1, 4)
            for a in range(na):
                e = rng.choice(ELEMS if mode == 'hostile' else ELEMS[:-1])
                # generic force-field / mol2 style: several atoms of a residue may carry the same name
                nm = e[0] if (mode == 'hostile' and dupnames) else '%s%d' % (e[0], a + 1)
                if mode == 'hostile' and not dupnames and rng.chance(0.3):
                    # force-field / old-style spellings and names that read like element symbols (unique within the residue)
                    alt = rng.choice(FF_NAMES.get(e, [nm]))
                    if all(x['name'] != alt for x in atoms if x['res'] == len(residues) - 1):
                        nm = alt
                atoms.append({'name': nm, 'elem': e, 'serial': serial, 'res': len(residues) - 1})
                serial += rng.choice([1, 1, 1, 2, 7]) if mode == 'hostile' else 1
    n = len(atoms)
    bonds = set()
    nb = rng.randint(0, min(2 * n, 12))
    for _ in range(nb):
        if n < 2:
            break
        i, j = rng.below(n), rng.below(n)
        if i == j:
            continue
        i, j = min(i, j), max(i, j)
        if any(b[0] == i and b[1] == j for b in bonds):
            continue
        if mode == 'hostile':
            ty = rng.choice(BOND_TYPES)
            od = rng.choice([None, 1, 2, 3])
        else:
            ty, od = None, None
        bonds.add((i, j, ty, od))
    return {'chains': chains, 'residues': residues, 'atoms': atoms, 'bonds': sorted(bonds, key=lambda b: (b[0], b[1], str(b[2]), str(b[3])))}


def generate(check, rng, tier, run_index):
    mode = rng.weighted([('hostile', 7), ('friendly', 3)])
    members = [gen_model(rng, mode) for _ in range(rng.randint(1, 2))]
    nops = rng.randint(4, 22 if tier == 'quick' else 34)
    W = [('copy', 8), ('copycopy', 3), ('deepcopy', 5), ('pickle', 3), ('subset', 9), ('join', 6), ('traj_slice', 3),
         ('traj_atom_slice', 3), ('traj_stack', 2), ('dataframe', 3), ('h5', 1), ('pdb', 1), ('h5_handle', 1),
         ('rename', 5), ('add_bond', 5), ('add_atom', 3), ('insert_atom', 4), ('delete_atom', 5), ('add_residue', 2),
         ('add_chain', 1), ('eqhash', 4), ('join_onto_empty', 1), ('subset_all', 1)]
    ops = []
    for _ in range(nops):
        k = rng.weighted(W)
        o = {'op': k, 'i': rng.below(1 << 10)}
        if k == 'pdb':
            o['ter'] = rng.chance(0.7)
            o['std_names'] = rng.chance(0.6)        # False: load_pdb(standard_names=False), names come back as they are in the file
        if k in ('subset', 'traj_atom_slice'):
            o['bits'] = rng.below(1 << 48) | (1 << rng.below(8))
        elif k in ('join', 'traj_stack'):
            o['j'] = rng.below(1 << 10)
            o['keep'] = rng.chance(0.6)
        elif k == 'rename':
            o['a'] = rng.below(1 << 10)
            o['what'] = rng.choice(['atom', 'residue', 'resSeq', 'chain_id', 'segment', 'serial'])
        elif k == 'add_bond':
            o['a'] = rng.below(1 << 10)
            o['b'] = rng.below(1 << 10)
            o['type'] = rng.choice(BOND_TYPES)
            o['order'] = rng.choice([None, 1, 2, 3])
        elif k in ('add_atom', 'insert_atom'):
            o['r'] = rng.below(1 << 10)
            o['elem'] = rng.choice(ELEMS)
        elif k == 'delete_atom':
            o['a'] = rng.below(1 << 10)
        ops.append(o)
    return {'check': check, 'mode': mode, 'members': members, 'ops': ops}


# ------------------------------------------------------------------ model <-> live

def _elem(md, sym):
    from mdtraj.core import element as elem
    return elem.virtual if sym == 'VS' else elem.get_by_symbol(sym)


def _btype(name):
    if name is None:
        return None
    from mdtraj.core import topology as T
    return getattr(T, name)


def build(md, model):
    top = md.Topology()
    ch = [top.add_chain(c['id']) if c['id'] is not None else top.add_chain() for c in model['chains']]
    rs = []
    for r in model['residues']:
        rs.append(top.add_residue(r['name'], ch[r['chain']], resSeq=r['resSeq'], segment_id=r['seg']))
    at = []
    for a in model['atoms']:
        at.append(top.add_atom(a['name'], _elem(md, a['elem']), rs[a['res']], serial=a['serial']))
    for i, j, ty, od in model['bonds']:
        top.add_bond(at[i], at[j], type=_btype(ty), order=od)
    return top


def extract(top):
    """live topology -> (model, structural problems)"""
    problems = []
    chains, residues, atoms = [], [], []
    res_index = {}
    k = 0
    for ci, c in enumerate(top.chains):
        if c.index != ci:
            problems.append('chain_index')
        chains.append({'id': getattr(c, 'chain_id', None)})
        for r in c.residues:
            if r.index != len(residues):
                problems.append('residue_index')
            if r.chain is not c:
                problems.append('residue_chain_link')
            res_index[id(r)] = len(residues)
            residues.append({'name': r.name, 'resSeq': r.resSeq, 'seg': r.segment_id, 'chain': ci})
            for a in r.atoms:
                if a.index != k:
                    problems.append('atom_index')
                if a.residue is not r:
                    problems.append('atom_residue_link')
                try:
                    if top.atom(a.index) is not a:
                        problems.append('atom_lookup')
                except IndexError:
                    problems.append('atom_lookup')
                e = a.element
                sym = 'VS' if (e is None or e.symbol == 'VS') else e.symbol
                ser = a.serial
                if isinstance(ser, float) and ser != ser:
                    ser = 'nan'          # a data frame turns a missing serial into NaN; NaN != NaN would poison every later comparison
                elif ser is not None and not isinstance(ser, (int, str)):
                    try:
                        ser = int(ser) if float(ser) == int(ser) else float(ser)
                    except Exception:
                        ser = repr(ser)
                atoms.append({'name': a.name, 'elem': sym, 'serial': ser, 'res': res_index[id(r)]})
                k += 1
    if top.n_atoms != k:
        problems.append('n_atoms_counter')
    if top.n_residues != len(residues):
        problems.append('n_residues_counter')
    own = set(id(a) for a in top.atoms)
    bonds = []
    for b in top.bonds:
        if id(b[0]) not in own or id(b[1]) not in own:
            problems.append('bond_points_outside')
        i, j = b[0].index, b[1].index
        if i > j:
            i, j = j, i
        bonds.append((i, j, None if b.type is None else repr(b.type), b.order))
    bonds.sort(key=lambda b: (b[0], b[1], str(b[2]), str(b[3])))
    return {'chains': chains, 'residues': residues, 'atoms': atoms, 'bonds': bonds}, sorted(set(problems))


def diff(model, got, drop=()):
    """attribute classes that differ (ordered); `drop` = attributes the carrier is allowed to lose"""
    out = []
    if len(model['atoms']) != len(got['atoms']):
        return ['n_atoms']
    if [a['name'] for a in model['atoms']] != [a['name'] for a in got['atoms']]:
        out.append('atom_name')
    if [a['elem'] for a in model['atoms']] != [a['elem'] for a in got['atoms']]:
        out.append('element')
    if [a['serial'] for a in model['atoms']] != [a['serial'] for a in got['atoms']]:
        out.append('serial')
    # partition of atoms into residues and chains
    if [a['res'] for a in model['atoms']] != [a['res'] for a in got['atoms']] or len(model['residues']) != len(got['residues']):
        out.append('residue_partition')
    else:
        if [r['name'] for r in model['residues']] != [r['name'] for r in got['residues']]:
            out.append('residue_name')
        if [r['resSeq'] for r in model['residues']] != [r['resSeq'] for r in got['residues']]:
            out.append('resSeq')
        if [r['seg'] for r in model['residues']] != [r['seg'] for r in got['residues']]:
            out.append('segment_id')
        if [r['chain'] for r in model['residues']] != [r['chain'] for r in got['residues']] or len(model['chains']) != len(got['chains']):
            out.append('chain_partition')
        elif [c['id'] for c in model['chains']] != [c['id'] for c in got['chains']]:
            out.append('chain_id')
    mb = sorted(set((b[0], b[1]) for b in model['bonds']))
    gb = sorted(set((b[0], b[1]) for b in got['bonds']))
    if mb != gb or len(model['bonds']) != len(got['bonds']):
        out.append('bond_graph')
    else:
        if 'bond_type' not in drop and [b[2] for b in model['bonds']] != [b[2] for b in got['bonds']]:
            out.append('bond_type')
        if 'bond_order' not in drop and [b[3] for b in model['bonds']] != [b[3] for b in got['bonds']]:
            out.append('bond_order')
    return [x for x in out if x not in drop]


PDB_STANDARD = set(['ALA', 'GLY', 'SER', 'HOH', 'ARG', 'ASN', 'ASP', 'CYS', 'GLN', 'GLU', 'HIS', 'ILE', 'LEU', 'LYS', 'MET',
                    'PHE', 'PRO', 'THR', 'TRP', 'TYR', 'VAL'])


# residue names whose internal bonds the PDB writer leaves to the reader's templates (pdbfile.py, _write_footer): a bond is
# written as a CONECT record when at least one of its atoms is in a residue *not* named here
PDB_WRITER_STANDARD = set(['ALA', 'ASN', 'CYS', 'GLU', 'HIS', 'LEU', 'MET', 'PRO', 'THR', 'TYR', 'ARG', 'ASP', 'GLN', 'GLY', 'ILE',
                           'LYS', 'PHE', 'SER', 'TRP', 'VAL', 'A', 'G', 'C', 'U', 'I', 'DA', 'DG', 'DC', 'DT', 'DI', 'HOH'])


def pdb_conect_expectation(model):
    """bonds a PDB file must carry as CONECT records even when the model has standard-named residues (whose other
    attributes the reader may rewrite): those with an atom in a non-standard residue.  None when the model is outside what
    CONECT records can address (same conditions as carrier_limits uses for the whole bond graph)."""
    reasons = _pdb_structural_reasons(model)
    if reasons - set(['standard_name']):
        return None
    if len(model['chains']) == 1:
        ser = [a['serial'] for a in model['atoms']]
        if not (all(isinstance(x, int) and 0 <= x < 100000 for x in ser) and len(set(ser)) == len(ser)):
            return None
    names = [model['residues'][a['res']]['name'] for a in model['atoms']]
    return set((b[0], b[1]) for b in model['bonds'] if names[b[0]] not in PDB_WRITER_STANDARD or names[b[1]] not in PDB_WRITER_STANDARD)


def _pdb_structural_reasons(model):
    reasons = set()
    chain_ids = [c['id'] for c in model['chains']]
    if any(r['name'] in PDB_STANDARD or len(r['name']) > 3 for r in model['residues']):
        reasons.add('standard_name')
    if any(not (0 <= r['resSeq'] <= 9999) for r in model['residues']):
        reasons.add('resSeq_range')
    if any(len(r['seg']) > 4 for r in model['residues']):
        reasons.add('segment')
    if any(a['elem'] == 'VS' for a in model['atoms']):
        reasons.add('vs')
    if any(len(a['name']) > 4 for a in model['atoms']):
        reasons.add('long_atom_name')
    rs = model['residues']
    for a, b in zip(rs[:-1], rs[1:]):
        if a['chain'] == b['chain'] and a['resSeq'] == b['resSeq'] and a['name'] == b['name']:
            reasons.add('repeated_resSeq')      # (with different names the reader starts a new residue: no limit)
    if any(c is not None and len(c) != 1 for c in chain_ids):
        reasons.add('chain_id_width')
    seen = set()
    for a in model['atoms']:
        if (a['res'], a['name']) in seen:
            reasons.add('altloc')
        seen.add((a['res'], a['name']))
    if len(model['chains']) > 1 and (any(c is None for c in chain_ids) is False) and len(set(chain_ids)) != len(chain_ids):
        reasons.add('chain_merge')
    if len(model['chains']) > 26:
        reasons.add('chains')
    if any(c is None for c in chain_ids) and len(model['chains']) > 1 and any(c is not None for c in chain_ids):
        reasons.add('positional_chain_letters')
    return reasons


def carrier_limits(carrier, model):
    """attributes this carrier is known not to hold for this model (measured carrier limits).  A loss outside
    this set is a new violation; a loss inside it is classified expect=limit (open known findings)."""
    lim = set()
    chain_ids = [c['id'] for c in model['chains']]
    if carrier == 'h5':
        if any(a['serial'] is not None for a in model['atoms']):
            lim.add('serial')                      # the HDF5 topology JSON has no serial field
        if any(c is not None for c in chain_ids):
            lim.add('chain_id')                    # ... and no chain id field
    elif carrier == 'dataframe':
        if any(c is not None for c in chain_ids):
            lim.add('chain_id')                    # the chainID column holds the chain *index*
        rs = model['residues']
        for a, b in zip(rs[:-1], rs[1:]):
            if a['chain'] == b['chain'] and a['resSeq'] == b['resSeq'] and a['name'] == b['name']:
                lim.update(['residue_partition', 'residue_name', 'resSeq', 'segment_id', 'chain_partition', 'chain_id'])
        if any(a['serial'] is None or a['serial'] == 'nan' for a in model['atoms']):
            lim.add('serial')
    elif carrier == 'pdb':
        # independent limits of the fixed-width format and of the reader's conventions
        structural = False
        if any(r['name'] in PDB_STANDARD or len(r['name']) > 3 for r in model['residues']):
            structural = True                      # reader renames atoms of standard residues and re-creates template bonds
        if any(not (0 <= r['resSeq'] <= 9999) for r in model['residues']):
            structural = True
        if any(len(r['seg']) > 4 for r in model['residues']):
            structural = True
        if any(a['elem'] == 'VS' or len(a['name']) > 4 for a in model['atoms']):
            structural = True
        rs = model['residues']
        for a, b in zip(rs[:-1], rs[1:]):
            if a['chain'] == b['chain'] and a['resSeq'] == b['resSeq'] and a['name'] == b['name']:
                structural = True                  # residues are told apart by their number (and name) in the file
        if any(c is not None and len(c) != 1 for c in chain_ids):
            structural = True
        seen = set()
        for a in model['atoms']:
            if (a['res'], a['name']) in seen:
                structural = True                  # the reader treats a repeated atom name in a residue as an alternate location
            seen.add((a['res'], a['name']))
        ids = [c for c in chain_ids]
        if len(model['chains']) > 1 and (any(c is None for c in ids) is False) and len(set(ids)) != len(ids):
            structural = True                      # two chains with the same one-letter id are merged by the reader
        if len(model['chains']) > 26:
            structural = True
        serial_ok = (len(model['chains']) == 1 and
                     all(isinstance(a['serial'], int) and 0 <= a['serial'] < 100000 for a in model['atoms']) and
                     len(set(a['serial'] for a in model['atoms'])) == len(model['atoms']))
        if structural:
            lim.update(['atom_name', 'element', 'serial', 'residue_partition', 'residue_name', 'resSeq', 'segment_id',
                        'chain_partition', 'chain_id', 'bond_graph', 'n_atoms'])
        else:
            if not serial_ok:
                lim.add('serial')                  # renumbered 1..n (TER records counted) for more than one chain or unusable serials
                if len(model['chains']) == 1:
                    lim.add('bond_graph')          # duplicate / missing serials in a single chain: CONECT cannot address the atoms
            if any(c is None for c in chain_ids):
                lim.add('chain_id')                # a chain without id is written as 'A', 'B', ... by position
                if len(model['chains']) > 1 and any(c is not None for c in chain_ids):
                    lim.update(['chain_partition', 'residue_partition', 'residue_name', 'resSeq', 'segment_id'])  # positional letters may collide with given ids
    return lim


def m_subset(model, idx):
    keep = sorted(set(idx))
    new_index = {old: k for k, old in enumerate(keep)}
    used_res = sorted(set(model['atoms'][i]['res'] for i in keep))
    res_map = {old: k for k, old in enumerate(used_res)}
    used_ch = sorted(set(model['residues'][r]['chain'] for r in used_res))
    ch_map = {old: k for k, old in enumerate(used_ch)}
    atoms = [dict(model['atoms'][i], res=res_map[model['atoms'][i]['res']]) for i in keep]
    residues = [dict(model['residues'][r], chain=ch_map[model['residues'][r]['chain']]) for r in used_res]
    chains = [dict(model['chains'][c]) for c in used_ch]
    bonds = [(new_index[i], new_index[j], ty, od) for (i, j, ty, od) in model['bonds'] if i in new_index and j in new_index]
    bonds.sort(key=lambda b: (b[0], b[1], str(b[2]), str(b[3])))
    return {'chains': chains, 'residues': residues, 'atoms': atoms, 'bonds': bonds}


def m_join(a, b, keep_resSeq):
    out = _copy.deepcopy(a)
    nc, nr, na = len(a['chains']), len(a['residues']), len(a['atoms'])
    last = a['residues'][a['atoms'][-1]['res']]['resSeq'] if a['atoms'] else 0
    for c in b['chains']:
        out['chains'].append(dict(c))
    for r in b['residues']:
        rr = dict(r, chain=r['chain'] + nc)
        if not keep_resSeq:
            last += 1
            rr['resSeq'] = last
        out['residues'].append(rr)
    for at in b['atoms']:
        out['atoms'].append(dict(at, res=at['res'] + nr))
    for (i, j, ty, od) in b['bonds']:
        out['bonds'].append((i + na, j + na, ty, od))
    out['bonds'].sort(key=lambda x: (x[0], x[1], str(x[2]), str(x[3])))
    return out


def _bt(name):
    return None if name is None else name


def norm_model(model):
    """bond type names as repr(Singleton) gives them"""
    m = _copy.deepcopy(model)
    m['bonds'] = sorted([(i, j, None if ty is None else ty, od) for (i, j, ty, od) in m['bonds']],
                        key=lambda b: (b[0], b[1], str(b[2]), str(b[3])))
    return m


class Member(object):
    _next = [0]

    def __init__(self, top, model):
        self.top = top
        self.model = norm_model(model)
        self.id = Member._next[0]
        Member._next[0] += 1


def execute(check, case, workdir):
    import warnings
    warnings.simplefilter('ignore')
    import mdtraj as md
    res = Result()
    Member._next[0] = 0
    mode = case['mode']
    pool = []

    def add(m):
        pool.append(m)
        while len(pool) > POOL_MAX:
            pool.pop(0)

    for model in case['members']:
        add(Member(build(md, model), model))

    def viol(op, kind, detail, stepno, flags=''):
        res.violate('%s|%s|%s|%s' % (check, op, kind, flags or ('mode=' + mode)), stepno, dict(detail))

    def check_member(m, stepno, opname, what='model_mismatch', drop=(), flags=''):
        got, problems = extract(m.top)
        if problems:
            viol(opname, 'inconsistent:' + problems[0], {'member': m.id, 'problems': problems}, stepno, flags)
            return False
        d = diff(m.model, got, drop)
        if d:
            viol(opname, what + ':' + d[0], {'member': m.id, 'attributes': d}, stepno, flags)
            return False
        return True

    def check_all(stepno, opname, touched=None):
        for m in pool:
            kind = 'model_mismatch' if (touched is None or m is touched) else 'leaked_to_other_member'
            if not check_member(m, stepno, opname, kind):
                # resync the model so that one defect is reported once per run, not at every later step
                m.model, _ = extract(m.top)
                return False
        return True

    def pick(raw, cands=None):
        c = pool if cands is None else cands
        return c[raw % len(c)]

    def idx_from_bits(bits, n):
        idx = [a for a in range(n) if (bits >> (a % 48)) & 1]
        return idx or [0]

    def derived(opname, src, top2, model2, stepno, drop=(), carrier=None):
        """a freshly derived topology: compare, then add to the pool"""
        mm = Member(top2, model2)
        got, problems = extract(top2)
        flags = 'mode=' + mode
        if problems:
            viol(opname, 'inconsistent:' + problems[0], {'problems': problems}, stepno, flags)
            mm.model = got
            add(mm)
            return None
        d = diff(mm.model, got, drop)
        if d:
            if carrier:
                # one signature per lost attribute, so that known carrier limits do not hide anything else
                lim = carrier_limits(opname, mm.model)
                for attr in d:
                    viol(opname, 'attr_lost:' + attr, {'attributes': d, 'carrier_limits_for_this_input': sorted(lim)}, stepno,
                         'expect=limit' if attr in lim else 'expect=kept')
            else:
                viol(opname, 'result_mismatch:' + d[0], {'attributes': d}, stepno, flags)
            mm.model = got
        if carrier:
            mm.model = got       # whatever came back is what this new member now is (dropped bond types included)
        if top2 is src.top:
            viol(opname, 'returned_same_object', {}, stepno, flags)
            return None
        own = set(id(a) for a in src.top.atoms)
        if any(id(a) in own for a in top2.atoms):
            viol(opname, 'shares_atom_objects', {}, stepno, flags)
        add(mm)
        return mm

    for stepno, op in enumerate(case['ops']):
        res.steps += 1
        kind = op['op']
        m = pick(op['i'])
        top = m.top
        try:
            if kind == 'copy':
                derived('copy', m, top.copy(), m.model, stepno)
            elif kind == 'copycopy':
                derived('copy.copy', m, _copy.copy(top), m.model, stepno)
            elif kind == 'deepcopy':
                derived('deepcopy', m, _copy.deepcopy(top), m.model, stepno)
            elif kind == 'pickle':
                derived('pickle', m, pickle.loads(pickle.dumps(top)), m.model, stepno)
            elif kind == 'subset':
                idx = idx_from_bits(op['bits'], len(m.model['atoms']))
                if len(idx) < len(m.model['atoms']):
                    res.probe('proper_subset')
                mm2 = m_subset(m.model, idx)
                if len(mm2['residues']) < len(m.model['residues']):
                    res.probe('subset_emptied_a_residue')
                if len(mm2['chains']) < len(m.model['chains']):
                    res.probe('subset_emptied_a_chain')
                derived('subset', m, top.subset(idx), mm2, stepno)
            elif kind == 'join':
                u = pick(op['j'])
                if len(m.model['atoms']) + len(u.model['atoms']) > 90:
                    continue
                derived('join', m, top.join(u.top, keep_resSeq=op['keep']), m_join(m.model, u.model, op['keep']), stepno)
            elif kind == 'join_onto_empty':
                # boundary: the left operand has no atoms at all (how a system is often assembled piece by piece)
                res.probe('join_onto_empty_topology')
                derived('join', m, md.Topology().join(top, keep_resSeq=True), m.model, stepno)
            elif kind == 'subset_all':
                # boundary: a subset that keeps everything must still be an independent object
                res.probe('subset_keeping_every_atom')
                derived('subset', m, top.subset(list(range(len(m.model['atoms'])))), m.model, stepno)
            elif kind in ('traj_slice', 'traj_atom_slice', 'traj_stack'):
                n = len(m.model['atoms'])
                t = md.Trajectory(np.zeros((2, n, 3), dtype=np.float32), top)
                if kind == 'traj_slice':
                    derived('traj_slice', m, t[1].topology, m.model, stepno)
                elif kind == 'traj_atom_slice':
                    idx = idx_from_bits(op['bits'], n)
                    derived('traj_atom_slice', m, t.atom_slice(idx).topology, m_subset(m.model, idx), stepno)
                else:
                    u = pick(op['j'])
                    if n + len(u.model['atoms']) > 90:
                        continue
                    t2 = md.Trajectory(np.zeros((2, len(u.model['atoms']), 3), dtype=np.float32), u.top)
                    derived('traj_stack', m, t.stack(t2, keep_resSeq=op['keep']).topology, m_join(m.model, u.model, op['keep']), stepno)
            elif kind == 'dataframe':
                atoms, bonds = top.to_dataframe()
                top2 = md.Topology.from_dataframe(atoms, bonds)
                derived('dataframe', m, top2, m.model, stepno, carrier=True)
            elif kind in ('h5', 'pdb'):
                n = len(m.model['atoms'])
                if any(a['serial'] == 'nan' for a in m.model['atoms']):
                    # a serial that went through a data frame as "missing" is NaN (carrier limit above); the file writers
                    # cannot format it.  Not a new finding: skipped.
                    res.probe('carrier_skipped_nan_serial')
                    continue
                xyz = np.arange(n * 3, dtype=np.float32).reshape(1, n, 3) * 0.01
                t = md.Trajectory(xyz, top)
                p = os.path.join(workdir, 'top%d.%s' % (stepno, kind))
                if kind == 'pdb' and not op.get('ter', True):
                    t.save_pdb(p, ter=False)
                    res.probe('pdb_saved_without_ter')
                else:
                    t.save(p)
                raw_names = kind == 'pdb' and not op.get('std_names', True)
                top2 = (md.load(p, standard_names=False) if raw_names else md.load(p)).topology
                if raw_names:
                    res.probe('pdb_loaded_with_standard_names_off')
                drop = ('bond_type', 'bond_order')      # neither the PDB format nor the HDF5 topology JSON (pairs only) can hold them
                if kind == 'pdb' and top2.n_atoms == n and not (_pdb_structural_reasons(m.model) - set(['standard_name', 'vs'])):
                    # per-atom columns the file stores verbatim: the element always; the atom name unless the reader was asked
                    # to rewrite the names of standard residues (standard_names=True with such a residue present)
                    res.probe('pdb_atom_columns_checked')
                    ge = [a.element.symbol for a in top2.atoms]
                    we = [a['elem'] for a in m.model['atoms']]
                    if ge != we:
                        k0 = [i for i in range(n) if ge[i] != we[i]][0]
                        viol('pdb', 'attr_lost:element_column', {'atom': k0, 'name': m.model['atoms'][k0]['name'], 'stored': we[k0], 'loaded': ge[k0]}, stepno, 'expect=kept')
                    elif raw_names or 'standard_name' not in _pdb_structural_reasons(m.model):
                        gn = [a.name for a in top2.atoms]
                        wn = [a['name'] for a in m.model['atoms']]
                        if gn != wn:
                            k0 = [i for i in range(n) if gn[i] != wn[i]][0]
                            viol('pdb', 'attr_lost:atom_name_column', {'atom': k0, 'stored': wn[k0], 'loaded': gn[k0], 'standard_names': not raw_names}, stepno, 'expect=kept')
                want = pdb_conect_expectation(m.model) if kind == 'pdb' else None
                if want is not None and top2.n_atoms == len(m.model['atoms']):
                    # the part of the bond graph the file itself must carry (CONECT), judged on its own: the reader's templates
                    # only ever add bonds between two atoms of standard residues
                    names = [m.model['residues'][a['res']]['name'] for a in m.model['atoms']]
                    gotb = set((min(b[0].index, b[1].index), max(b[0].index, b[1].index)) for b in top2.bonds)
                    gotb = set(b for b in gotb if names[b[0]] not in PDB_WRITER_STANDARD or names[b[1]] not in PDB_WRITER_STANDARD)
                    res.probe('pdb_conect_subgraph_checked')
                    if any(names[b[0]] in PDB_WRITER_STANDARD or names[b[1]] in PDB_WRITER_STANDARD for b in want):
                        res.probe('pdb_bond_between_standard_and_other_residue')
                    if want - gotb:
                        # (bonds the reader adds on its own -- a peptide link from a standard residue's C to the next residue's N --
                        # are its documented convention and not judged here)
                        viol('pdb', 'attr_lost:conect_bonds', {'missing': sorted(want - gotb)[:6]}, stepno, 'expect=kept')
                derived(kind, m, top2, m.model, stepno, drop=drop, carrier=True)
            elif kind == 'h5_handle':
                # one open reader handed out twice, with an edit of the first result in between: what the file hands out the
                # second time (handle.topology, the next iterload chunk) must still be what was stored
                n = len(m.model['atoms'])
                if any(a['serial'] == 'nan' for a in m.model['atoms']):
                    continue
                xyz = np.arange(3 * n * 3, dtype=np.float32).reshape(3, n, 3) * 0.01
                p = os.path.join(workdir, 'hh%d.h5' % stepno)
                md.Trajectory(xyz, top).save(p)
                stored, _ = extract(md.load(p).topology)
                res.fault('edit_between_two_reads_of_one_handle')
                bad = None
                with md.open(p) as fh:
                    t1 = fh.topology
                    if t1.n_atoms > 1:
                        t1.delete_atom_by_index(t1.n_atoms - 1)
                    t1.atom(0).name = 'EDIT'
                    got, _ = extract(fh.topology)
                    if diff(stored, got):
                        bad = ('handle.topology', diff(stored, got))
                if bad is None:
                    it = md.iterload(p, chunk=1)
                    c0 = next(it)
                    c0.topology.atom(0).name = 'EDIT'
                    if c0.topology.n_atoms > 1:
                        c0.topology.delete_atom_by_index(c0.topology.n_atoms - 1)
                    try:
                        c1 = next(it)
                        got, _ = extract(c1.topology)
                        if diff(stored, got):
                            bad = ('iterload_next_chunk', diff(stored, got))
                    except Exception as e:
                        bad = ('iterload_next_chunk_raises', [type(e).__name__])
                    finally:
                        it.close()
                res.log.append('%d h5_handle m%d%s' % (stepno, m.id, '' if bad is None else ' LEAKED'))
                res.trace.append(('h5_handle', bad is None))
                if bad is not None:
                    viol('h5_handle', 'edit_of_first_result_leaks_into_second:' + bad[0], {'attributes': bad[1]}, stepno)
                continue
            elif kind == 'rename':
                n = len(m.model['atoms'])
                a = op['a'] % n
                what = op['what']
                if what == 'atom':
                    top.atom(a).name = 'Q%d' % (stepno % 10)
                    m.model['atoms'][a]['name'] = 'Q%d' % (stepno % 10)
                elif what == 'serial':
                    top.atom(a).serial = 7000 + stepno
                    m.model['atoms'][a]['serial'] = 7000 + stepno
                else:
                    r = m.model['atoms'][a]['res']
                    if what == 'residue':
                        top.atom(a).residue.name = 'RNM'
                        m.model['residues'][r]['name'] = 'RNM'
                    elif what == 'resSeq':
                        top.atom(a).residue.resSeq = 900 + stepno
                        m.model['residues'][r]['resSeq'] = 900 + stepno
                    elif what == 'segment':
                        top.atom(a).residue.segment_id = 'SG%d' % (stepno % 10)
                        m.model['residues'][r]['seg'] = 'SG%d' % (stepno % 10)
                    else:
                        c = m.model['residues'][r]['chain']
                        top.atom(a).residue.chain.chain_id = 'Z'
                        m.model['chains'][c]['id'] = 'Z'
                res.fault('edit:' + what)
                check_all(stepno, 'edit_' + what, touched=m)
                continue
            elif kind == 'add_bond':
                n = len(m.model['atoms'])
                a, b = op['a'] % n, op['b'] % n
                if a == b or any((x[0], x[1]) == (min(a, b), max(a, b)) for x in m.model['bonds']):
                    continue
                top.add_bond(top.atom(a), top.atom(b), type=_btype(op['type']), order=op['order'])
                m.model['bonds'].append((min(a, b), max(a, b), op['type'], op['order']))
                m.model['bonds'].sort(key=lambda x: (x[0], x[1], str(x[2]), str(x[3])))
                res.fault('edit:add_bond')
                check_all(stepno, 'edit_add_bond', touched=m)
                continue
            elif kind == 'add_atom':
                # appended to the last residue (keeps iteration order == index order)
                r = len(m.model['residues']) - 1
                rl = list(top.residues)[-1]
                top.add_atom('NW', _elem(md, op['elem']), rl, serial=8000 + stepno)
                m.model['atoms'].append({'name': 'NW', 'elem': op['elem'], 'serial': 8000 + stepno, 'res': r})
                res.fault('edit:add_atom')
                check_all(stepno, 'edit_add_atom', touched=m)
                continue
            elif kind == 'add_residue':
                cl = list(top.chains)[-1]
                rr = top.add_residue('NEW', cl, resSeq=500 + stepno, segment_id='NS')
                top.add_atom('X1', _elem(md, 'C'), rr, serial=8500 + stepno)
                m.model['residues'].append({'name': 'NEW', 'resSeq': 500 + stepno, 'seg': 'NS', 'chain': len(m.model['chains']) - 1})
                m.model['atoms'].append({'name': 'X1', 'elem': 'C', 'serial': 8500 + stepno, 'res': len(m.model['residues']) - 1})
                res.fault('edit:add_residue')
                check_all(stepno, 'edit_add_residue', touched=m)
                continue
            elif kind == 'add_chain':
                cc = top.add_chain('N')
                rr = top.add_residue('NCH', cc, resSeq=1, segment_id='')
                top.add_atom('Y1', _elem(md, 'O'), rr, serial=9000 + stepno)
                m.model['chains'].append({'id': 'N'})
                m.model['residues'].append({'name': 'NCH', 'resSeq': 1, 'seg': '', 'chain': len(m.model['chains']) - 1})
                m.model['atoms'].append({'name': 'Y1', 'elem': 'O', 'serial': 9000 + stepno, 'res': len(m.model['residues']) - 1})
                res.fault('edit:add_chain')
                check_all(stepno, 'edit_add_chain', touched=m)
                continue
            elif kind == 'insert_atom':
                r = op['r'] % len(m.model['residues'])
                members_idx = [k for k, a in enumerate(m.model['atoms']) if a['res'] == r]
                if not members_idx:
                    continue
                index = members_idx[-1] + 1           # right after the residue's last atom
                rl = list(top.residues)[r]
                top.insert_atom('IN', _elem(md, op['elem']), rl, index=index, serial=9500 + stepno)
                m.model['atoms'].insert(index, {'name': 'IN', 'elem': op['elem'], 'serial': 9500 + stepno, 'res': r})
                m.model['bonds'] = sorted([(i + (i >= index), j + (j >= index), ty, od) for (i, j, ty, od) in m.model['bonds']],
                                          key=lambda x: (x[0], x[1], str(x[2]), str(x[3])))
                res.fault('edit:insert_atom')
                check_all(stepno, 'edit_insert_atom', touched=m)
                continue
            elif kind == 'delete_atom':
                n = len(m.model['atoms'])
                if n <= 1:
                    continue
                a = op['a'] % n
                r = m.model['atoms'][a]['res']
                if sum(1 for x in m.model['atoms'] if x['res'] == r) <= 1:
                    continue          # would leave an empty residue behind; delete_atom_by_index does not promise to prune it
                had_bond = any(a in (i, j) for (i, j, ty, od) in m.model['bonds'])
                if had_bond:
                    res.probe('deleted_atom_had_bonds')
                top.delete_atom_by_index(a)
                del m.model['atoms'][a]
                m.model['bonds'] = sorted([(i - (i > a), j - (j > a), ty, od) for (i, j, ty, od) in m.model['bonds'] if a not in (i, j)],
                                          key=lambda x: (x[0], x[1], str(x[2]), str(x[3])))
                res.fault('edit:delete_atom')
                check_all(stepno, 'edit_delete_atom' + ('_bonded' if had_bond else ''), touched=m)
                continue
            elif kind == 'eqhash':
                for x in pool:
                    for y in pool:
                        eq = (x.top == y.top)
                        same_model = diff(x.model, extract(y.top)[0]) == [] and diff(y.model, extract(x.top)[0]) == []
                        if same_model and not eq:
                            viol('eq', 'equal_models_compare_unequal', {'a': x.id, 'b': y.id}, stepno)
                        if eq and hash(x.top) != hash(y.top):
                            viol('hash', 'equal_but_hash_differs', {'a': x.id, 'b': y.id}, stepno)
                        if eq and not (y.top == x.top):
                            viol('eq', 'not_symmetric', {'a': x.id, 'b': y.id}, stepno)
                        if eq and x is not y:
                            res.probe('equal_pair_checked')
                            # equal topologies stay equal under the same transformation
                            n = min(len(x.model['atoms']), len(y.model['atoms']))
                            idx = list(range(0, n, 2)) or [0]
                            try:
                                if not (x.top.subset(idx) == y.top.subset(idx)) or not (x.top.copy() == y.top.copy()):
                                    viol('eq', 'unequal_after_same_transformation', {'a': x.id, 'b': y.id}, stepno)
                            except Exception:
                                pass
                res.trace.append(('eqhash',))
                continue
            res.log.append('%d %s m%d' % (stepno, kind, m.id))
            res.trace.append((kind, mode))
        except Exception as e:
            res.log.append('%d %s raised %s' % (stepno, kind, type(e).__name__))
            res.trace.append((kind, 'raise', type(e).__name__))
            viol(kind, 'raises:%s' % type(e).__name__, {'message': str(e)[:300]}, stepno)
            for x in pool:
                x.model, _ = extract(x.top)
            continue
        check_all(stepno, kind)
    return res


def shrink_world(check, case):
    if len(case['members']) > 1:
        c = _copy.deepcopy(case)
        c['members'].pop()
        yield c
    for k, mdl in enumerate(case['members']):
        if mdl['bonds']:
            for b in range(len(mdl['bonds'])):
                c = _copy.deepcopy(case)
                del c['members'][k]['bonds'][b]
                yield c
