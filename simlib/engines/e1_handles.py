"""E1 handle-sim: clients (raw handles, iterload generators, one-shot loaders) on shared files,
stepped one call at a time by a seeded scheduler.  Decides C18 (cursor model) and C02
(partial load = slice of the full load)."""
import gc
import os
import pathlib

import numpy as np

from ..core import Result
from .. import fmts

C18_FORMATS = [('h5', 3), ('xtc', 4), ('trr', 4), ('dcd', 3), ('nc', 3), ('mdcrd', 2), ('xyz', 2),
               ('lammpstrj', 2), ('dtr', 2)]
C02_FORMATS = [('h5', 4), ('xtc', 4), ('trr', 3), ('dcd', 3), ('nc', 3), ('mdcrd', 2), ('xyz', 2),
               ('lammpstrj', 2), ('gro', 1), ('pdb', 1), ('dtr', 1), ('rst7', 1), ('ncrst', 1)]
RESTART = ('rst7', 'ncrst')
LONG_OK = ('h5', 'nc', 'dcd', 'xtc', 'trr', 'xyz', 'mdcrd')      # formats in which a file of thousands of frames is generated


def _clamp_long(f):
    """a file whose format or atom count was overridden after generation keeps a long frame count only where that is cheap"""
    if f['n_frames'] > 1000 and (f['fmt'] not in LONG_OK or f['n_atoms'] > 3):
        f['n_frames'] = f['n_frames'] % 30 + 1
ATOMS = [1, 2, 3, 8, 9, 10, 11, 20, 22, 30, 50, 50, 130, 257]      # incl. sizes beyond one text line / one compression block
XTOL = 5e-4


# ------------------------------------------------------------------ generation

def _gen_file(rng, formats, tier, max_frames=None):
    fmt = rng.weighted(formats)
    big = 60 if tier == 'thorough' else 40
    r = rng.random()
    if r < 0.55:
        n = rng.randint(1, 8)
    elif r < 0.9:
        n = rng.randint(5, 20)
    else:
        n = rng.randint(15, big)
    if max_frames:
        n = min(n, max_frames)
    n_atoms = rng.choice(ATOMS)
    if fmt in LONG_OK and rng.chance(0.012):
        # a long file of a tiny system: thousands of frames, beyond any internal block, cache or index granularity
        n = rng.randint(4100, 6000)
        n_atoms = rng.choice([2, 3])
    if fmt in ('pdb', 'gro') and n_atoms < 3:
        n_atoms = 3
    mdcrd_has_box_kw = False
    if fmt == 'mdcrd':
        # has_box is a documented constructor keyword for exactly the ambiguous case (one atom = 3 numbers per line = looks like
        # a box line): with it a one-atom file is legal input for a raw handle
        mdcrd_has_box_kw = rng.chance(0.3)
        if n_atoms < 2 and not mdcrd_has_box_kw:
            n_atoms = 2
    want = rng.choice([None, 'ortho', 'tric'])
    cell = fmts.cell_for(fmt, want)
    knobs = {}
    if fmt in ('xtc', 'trr') and rng.chance(0.6):
        knobs['min_chunk_size'] = rng.choice([1, 2, 3, 5, 10, 100])
        knobs['chunk_size_multiplier'] = rng.choice([0.01, 0.3, 0.5, 1.0, 1.5, 3.0])
    if fmt == 'h5':
        knobs['compression'] = rng.choice(['zlib', None])
    if fmt == 'nc' and rng.chance(0.4):
        knobs['backend'] = 'scipy'          # the scipy.io.netcdf fallback, selected the way the test-suite does (hide netCDF4)
    if mdcrd_has_box_kw:
        knobs['has_box_kw'] = True
    if fmt == 'lammpstrj':
        # legal `dump custom` column layouts other than the one mdtraj writes (the reader detects the columns per file)
        knobs['layout'] = rng.choice(['std', 'std', 'mol_first', 'reordered', 'wrapped_names', 'scaled_too'])
        knobs['line_order'] = rng.choice(['sorted', 'sorted', 'shuffled'])      # LAMMPS does not sort atom lines by id unless asked
    # dialects of the format that other programs write (simlib/foreign.py rewrites the mdtraj-written file value for value)
    if fmt == 'dcd' and rng.chance(0.45):
        knobs['dialect'] = rng.choice(['be', 'fixed', 'fixed', 'be_fixed', 'count0', 'count_stale', 'fixed_count0', 'be_count0']) if n_atoms >= 2 else rng.choice(['be', 'count0'])
        knobs['fixed_bits'] = rng.below(1 << 16)
    if fmt == 'trr' and rng.chance(0.45):
        knobs['dialect'] = rng.choice(['double', 'double_v', 'double_f', 'double_vf', 'single_vf', 'single_v'])
        knobs['trr_tensors'] = rng.choice(['', '', 'vir', 'pres', 'virpres'])
    if fmt == 'xyz' and rng.chance(0.35):
        knobs['dialect'] = rng.choice(['empty_comment', 'blank_comment'])
    if fmt == 'gro' and rng.chance(0.35):
        knobs['dialect'] = 'velocities'
    if fmt == 'nc' and rng.chance(0.35):
        # laid out as AMBER's own programs do; the HDF5-based container only where the netCDF4 library reads the file
        knobs['dialect'] = rng.choice(['amber_64bit', 'amber_classic', 'amber_vel', 'amber_remd'] + ([] if knobs.get('backend') == 'scipy' else ['amber_nc4', 'amber_nc4', 'packed', 'packed']))
    if fmt == 'dtr' and n >= 2 and rng.chance(0.4):
        # a .stk file listing two frame sets of a restarted run; the second starts `overlap` frames before the first one ends
        # (restart from a saved frame): the reader documents that the earlier set's overlapping frames are dropped
        cut = rng.randint(1, n - 1)
        knobs['stk'] = {'cut': cut, 'overlap': rng.randint(0, min(3, n - cut))}
    # extension aliases registered for the same reader, gz variants, and where the molecule sits (negative and large coordinates)
    alias = {'nc': ['.nc', '.nc', '.netcdf', '.ncdf'], 'mdcrd': ['.mdcrd', '.crd'], 'h5': ['.h5', '.h5', '.hdf5'],
             'xyz': ['.xyz', '.xyz', '.xyz.gz'], 'pdb': ['.pdb', '.pdb.gz'], 'rst7': ['.rst7', '.rst7', '.restrt', '.inpcrd']}
    if fmt in RESTART:
        n = 1                                   # one frame per file by format
        if fmt == 'rst7':
            n_atoms = max(3, n_atoms)           # one or two atoms: the 4th line of the ASCII format is ambiguous (amberrst.py)
    if fmt in alias:
        knobs['ext'] = rng.choice(alias[fmt])
    if rng.chance(0.4):
        knobs['origin'] = rng.choice([[-3.0, -2.0, -5.0], [40.0, -20.0, 7.0], [-0.4, 0.0, -1.2]])
    return {'fmt': fmt, 'n_frames': n, 'n_atoms': n_atoms, 'cell': cell, 'seed': rng.below(1 << 30), 'knobs': knobs}


def _gen_subsets(rng):
    """atom subsets, expressed as (start, step, count) triples resolved modulo n_atoms at run time, or
    explicit sorted fractions"""
    out = []
    for _ in range(2):
        out.append({'kind': 'frac', 'seed': rng.below(1 << 30), 'p': rng.choice([0.2, 0.5, 0.8])})
    # third entry: a slice object (only handed to raw file handles, several of which have explicit slice handling)
    out.append({'kind': 'slice', 'start': rng.choice([0, 0, 1]), 'step': rng.choice([1, 2, 3])})
    # fourth and fifth (raw handles of C18 only; C02 quantifies over strictly increasing subsets): an index list that is not sorted
    # (interior permuted with the smallest index first and the largest last, or fully shuffled), one with a repeated index
    out.append({'kind': 'unsorted', 'seed': rng.below(1 << 30), 'p': rng.choice([0.3, 0.6]), 'ends_fixed': rng.chance(0.5)})
    out.append({'kind': 'repeat', 'seed': rng.below(1 << 30), 'p': rng.choice([0.3, 0.6])})
    return out


def resolve_subset(sub, n_atoms):
    if sub is None:
        return None
    if sub.get('kind') == 'slice':
        idx = np.arange(n_atoms)[sub['start']::sub['step']]
        return idx if len(idx) else np.array([0])
    r = np.random.RandomState(sub['seed'])
    mask = r.uniform(size=n_atoms) < sub['p']
    idx = np.nonzero(mask)[0]
    if len(idx) == 0:
        idx = np.array([r.randint(n_atoms)])
    idx = idx.astype(int)
    if sub.get('kind') == 'unsorted' and len(idx) >= 3:
        if sub.get('ends_fixed'):
            idx = np.concatenate([idx[:1], r.permutation(idx[1:-1]), idx[-1:]])
        else:
            idx = r.permutation(idx)
    elif sub.get('kind') == 'repeat':
        k = int(r.randint(len(idx)))
        idx = np.insert(idx, k, idx[k])
    return idx


def _gen_handle_op(rng, n_handles, nsub):
    c = rng.below(n_handles)
    op = rng.weighted([('read', 30), ('readall', 10), ('seek', 16), ('rseek', 16), ('eseek', 4), ('tell', 12), ('len', 8),
                       ('reopen', 3), ('gc', 1)])
    o = {'op': op, 'c': c}
    if op == 'read':
        o['n'] = rng.weighted([(1, 4), (2, 3), (3, 2), (rng.randint(4, 12), 3), (rng.randint(13, 80), 1)])
        if rng.chance(0.3):
            o['ai'] = rng.below(nsub)
        if rng.chance(0.2):
            o['as_traj'] = True        # the same read through the handle's read_as_traj(): a Trajectory in nm instead of raw arrays
    elif op == 'readall':
        if rng.chance(0.3):
            o['ai'] = rng.below(nsub)
        if rng.chance(0.2):
            o['as_traj'] = True
    elif op in ('seek', 'rseek', 'eseek'):
        o['k'] = rng.below(1 << 16)
    return o


def generate(check, rng, tier, run_index):
    if check == 'C18':
        nfiles = 1 if rng.chance(0.75) else 2
        files = [_gen_file(rng, C18_FORMATS, tier) for _ in range(nfiles)]
        if rng.chance(0.03):
            # read-only .arc fixture (the format has no writer): only read(n)/read() are offered by the file class
            fx = rng.choice(sorted(fmts.ARC_FIXTURES))
            files = [{'fmt': 'arc', 'fixture': fx, 'n_frames': fmts.ARC_FIXTURES[fx][0], 'n_atoms': fmts.ARC_FIXTURES[fx][1],
                      'cell': None, 'seed': 0, 'knobs': {}}]
            nfiles = 1
        if nfiles == 2 and rng.chance(0.5):
            files[1]['fmt'] = files[0]['fmt']           # two files of one format: shared registries
            if files[1]['fmt'] == 'mdcrd':
                files[1]['n_atoms'] = max(2, files[1]['n_atoms'])
            files[1]['cell'] = fmts.cell_for(files[1]['fmt'], files[1]['cell'])
            files[1]['knobs'] = dict(files[0]['knobs'])
            _clamp_long(files[1])
        nh = rng.weighted([(1, 3), (2, 5), (3, 2)])
        handles = [{'file': rng.below(nfiles)} for _ in range(nh)]
        if nh >= 2 and rng.chance(0.7):
            handles[1]['file'] = handles[0]['file']      # two handles on the same file
        subsets = _gen_subsets(rng)
        nops = rng.randint(4, 30 if tier == 'quick' else 60)
        ops = [_gen_handle_op(rng, nh, len(subsets)) for _ in range(nops)]
        return {'check': check, 'files': files, 'handles': handles, 'subsets': subsets, 'ops': ops}
    # ---- C02
    nfiles = rng.weighted([(1, 5), (2, 3), (3, 2)])
    files = [_gen_file(rng, C02_FORMATS, tier, max_frames=30) for _ in range(nfiles)]
    for f in files:
        f['knobs'].pop('stk', None)                     # md.open / md.iterload do not register .stk (only md.load does): raw handles only
        if f['fmt'] == 'mdcrd':
            f['knobs'].pop('has_box_kw', None)          # md.load / md.iterload have no has_box argument
            f['n_atoms'] = max(2, f['n_atoms'])
    for f in files[1:]:
        # list loads need one format and one atom count
        f['fmt'] = files[0]['fmt']
        if f['fmt'] in RESTART:
            f['n_frames'] = 1
        f['n_atoms'] = files[0]['n_atoms']
        f['cell'] = files[0]['cell']
        f['knobs'] = dict(files[0]['knobs'])
        if f['fmt'] == 'lammpstrj':
            f['knobs']['layout'] = rng.choice(['std', 'mol_first', 'reordered', 'wrapped_names', 'scaled_too'])     # files of one format may differ in column layout
            f['knobs']['line_order'] = rng.choice(['sorted', 'shuffled'])
        _clamp_long(f)
    for k in range(1, nfiles):
        if files[k]['fmt'] not in RESTART and files[k - 1]['n_frames'] < 1000 and 'continues' not in files[k - 1]['knobs'] \
                and files[k - 1]['knobs'].get('dialect') != 'fixed' and rng.chance(0.4):
            # the parts of a restarted run: this file begins with the frame the previous file ends with
            files[k]['knobs']['continues'] = True
    subsets = _gen_subsets(rng)
    handles = [{'file': rng.below(nfiles)} for _ in range(2)]
    ops = []
    ngen = 0
    single = rng.chance(0.3)
    nops = rng.randint(3, 14) if single else rng.randint(8, 40)
    live = []
    for _ in range(nops):
        rst = files[0]['fmt'] in RESTART
        # (restart files: load_restrt / load_ncrestrt take neither stride nor frame and have no chunked reader -- md.load refuses
        # those keywords with a TypeError, md.iterload and md.load_frame likewise; what they do offer is judged: atom subsets, lists)
        kinds = [('iter_new', 10 if (ngen < 6 and not rst) else 0), ('iter_next', 30 if live else 0), ('iter_drain', 6 if live else 0),
                 ('load', 8), ('load_frame', 0 if rst else 6), ('load_list', 5), ('load_list_bad', 2),
                 ('raw', 0 if (single or rst) else 8)]
        k = rng.weighted(kinds)
        if k == 'iter_new':
            f = rng.below(nfiles)
            N = files[f]['n_frames']
            stride = rng.weighted([(1, 4), (2, 4), (3, 3), (4, 1), (5, 1), (7, 1)])
            chunk = rng.weighted([(0, 1), (1, 2), (max(1, stride - 1), 2), (stride, 2), (stride + 1, 3),
                                  (rng.randint(2, 9), 4), (N + 3, 1), (100, 1)])
            if N > 1000:
                chunk = rng.choice([0, 7, 100, 512, 1000, 2048, N + 3])      # a long file: no thousands of one-frame chunks
            skip = rng.weighted([(0, 5), (1, 2), (rng.randint(0, N), 3), (max(0, N - 1), 1), (N, 1)])
            o = {'op': 'iter_new', 'g': ngen, 'f': f, 'chunk': chunk, 'stride': stride, 'skip': skip,
                 'top': rng.choice(['obj', 'path', 'shared'])}
            if rng.chance(0.35):
                o['ai'] = rng.below(2)
            live.append(ngen)
            ngen += 1
        elif k in ('iter_next', 'iter_drain'):
            o = {'op': k, 'g': rng.choice(live)}
            if k == 'iter_drain':
                live.remove(o['g'])
        elif k == 'load':
            o = {'op': 'load', 'f': rng.below(nfiles), 'stride': rng.weighted([(None, 2), (1, 1), (2, 3), (3, 2), (5, 1), (50, 1)]),
                 'top': rng.choice(['obj', 'path', 'shared'])}
            if rng.chance(0.4):
                o['ai'] = rng.below(2)
        elif k == 'load_frame':
            o = {'op': rng.choice(['load_frame', 'load_kwframe']), 'f': rng.below(nfiles), 'i': rng.below(1 << 16),
                 'top': rng.choice(['obj', 'path', 'shared'])}
            if rng.chance(0.4):
                o['ai'] = rng.below(2)
        elif k == 'load_list':
            kf = rng.randint(1, 3)
            o = {'op': 'load_list', 'fs': [rng.below(nfiles) for _ in range(kf)] if rng.chance(0.6) else list(range(min(kf, nfiles))),
                 'discard': rng.chance(0.4),            # discard_overlapping_frames=True
                 'stride': rng.weighted([(None, 3), (2, 2), (3, 1)]), 'top': rng.choice(['obj', 'path', 'shared'])}
            if rng.chance(0.5):
                o['ai'] = rng.below(2)
        elif k == 'load_list_bad':
            # fault: a later file of the list exists but is unreadable (truncated copy / unrelated bytes): the load is
            # expected to fail half way; what it leaves behind must not change what later loads return
            o = {'op': 'load_list_bad', 'fs': [rng.below(nfiles)], 'bad': rng.choice(['truncated', 'junk', 'empty']),
                 'stride': rng.weighted([(None, 3), (2, 1)]), 'top': rng.choice(['obj', 'shared', 'shared'])}
            if rng.chance(0.7):
                o['ai'] = rng.below(2)
        else:
            o = _gen_handle_op(rng, len(handles), min(3, len(subsets)))
            o['raw'] = True
        if k in ('iter_new', 'load', 'load_frame', 'load_list') and rng.chance(0.2):
            o['pathobj'] = True                         # the file is named by a pathlib.Path object
        if rst and 'stride' in o:
            o['stride'] = None
        ops.append(o)
    if files[0]['fmt'] == 'trr':
        # AVOIDED (known finding C02/trr/heap-overflow): TRR reads with stride > 1 and an atom subset write
        # full frames into a subset-sized scratch array (trr.pyx `xyz_stride`), corrupting the heap of the
        # worker.  The configuration is left out of generation so the simulator itself stays sound.
        for o in ops:
            if 'ai' in o and (o.get('stride') or 1) > 1:
                del o['ai']
    return {'check': check, 'files': files, 'handles': handles, 'subsets': subsets, 'ops': ops}


# ------------------------------------------------------------------ world

class World(object):
    def __init__(self, case, workdir):
        import mdtraj as md
        self.md = md
        self.files = []
        for k, fs in enumerate(case['files']):
            F = fmts.FORMATS[fs['fmt']]
            path = os.path.join(workdir, 'f%d%s' % (k, F['ext']))
            if fs['fmt'] == 'arc':
                import shutil
                shutil.copyfile(os.path.join(os.path.dirname(os.path.dirname(os.path.dirname(os.path.abspath(__file__)))), 'data', fs['fixture']), path)
                with md.open(path) as fh:
                    ref = np.asarray(fh.read()[0])          # the reference is the sequential read of a fresh handle
                n = min(len(ref), fs['n_frames'])
                self.files.append({'spec': dict(fs, n_frames=n), 'path': path, 'traj': None, 'xyz': ref[:n], 'time': None, 'L': None, 'A': None,
                                   'top_path': None, 'top_saved': False, 'F': None, 'shared_top': None, 'exact': True})
                continue
            origin = tuple(fs['knobs'].get('origin', (0.0, 0.0, 0.0)))
            path = os.path.join(workdir, 'f%d%s' % (k, fs['knobs'].get('ext', F['ext'])))
            t = fmts.make_traj(fs['n_frames'], fs['n_atoms'], fs['cell'], fs['seed'], origin)
            cont = None
            if fs['knobs'].get('continues') and k > 0 and case['files'][k - 1]['n_atoms'] == fs['n_atoms']:
                prev = case['files'][k - 1]
                off = prev['n_frames'] - 1
                cont = (off, prev['seed'], tuple(prev['knobs'].get('origin', (0.0, 0.0, 0.0))))
                t = fmts.make_traj(off + fs['n_frames'], fs['n_atoms'], fs['cell'], cont[1], cont[2])[off:]
            kw = {}
            if fs['fmt'] == 'h5':
                # compression knob goes through the file object
                with md.formats.HDF5TrajectoryFile(path, 'w', compression=fs['knobs'].get('compression', 'zlib')) as f:
                    f.write(t.xyz, time=t.time, cell_lengths=t.unitcell_lengths, cell_angles=t.unitcell_angles)
                    f.topology = t.topology
            elif fs['fmt'] == 'dtr' and fs['knobs'].get('stk') and fs['n_frames'] >= 2:
                sk = fs['knobs']['stk']
                cut = min(sk['cut'], fs['n_frames'] - 1)
                ov = min(sk['overlap'], fs['n_frames'] - cut)
                pa, pb = os.path.join(workdir, 'f%d_a.dtr' % k), os.path.join(workdir, 'f%d_b.dtr' % k)
                t[:cut + ov].save(pa)
                t[cut:].save(pb)
                path = os.path.join(workdir, 'f%d.stk' % k)
                with open(path, 'w') as fh:
                    fh.write(pa + '\n' + pb + '\n')
            elif fs['fmt'] == 'rst7' and not path.endswith('.rst7'):
                tmp = os.path.join(workdir, 'f%d_tmp.rst7' % k)      # Trajectory.save knows .rst7 only; the loaders also .restrt and .inpcrd
                t.save(tmp)
                os.rename(tmp, path)
            else:
                t.save(path, **kw)
            if fs['fmt'] == 'lammpstrj' and (fs['knobs'].get('layout', 'std') != 'std' or fs['knobs'].get('line_order') == 'shuffled'):
                _relayout_lammpstrj(path, fs['knobs'].get('layout', 'std'), fs['knobs'].get('line_order') == 'shuffled', fs['seed'])
            x, tm, L, A = fmts.tagged_arrays(fs['n_frames'], fs['n_atoms'], fs['cell'], fs['seed'], origin)
            if cont is not None:
                x, tm, L, A = [None if v is None else v[cont[0]:] for v in fmts.tagged_arrays(cont[0] + fs['n_frames'], fs['n_atoms'], fs['cell'], cont[1], cont[2])]
            dia = fs['knobs'].get('dialect')
            if dia:
                from .. import foreign
                if fs['fmt'] == 'dcd':
                    if 'fixed' in dia and fs['n_atoms'] >= 2:
                        na = fs['n_atoms']
                        fixed = [i for i in range(na) if (fs['knobs'].get('fixed_bits', 1) >> (i % 16)) & 1]
                        if len(fixed) == na:
                            fixed = fixed[:-1]
                        if not fixed:
                            fixed = [na - 1]
                        foreign.dcd_fix_atoms(path, fixed)
                        # what such a file means: the fixed atoms stay where the first frame has them
                        x[1:, fixed] = x[0, fixed]
                        t.xyz[1:, fixed] = t.xyz[0, fixed]
                    if 'count' in dia:
                        # header frame counter that disagrees with the content (0: writer killed before closing; stale: updated late)
                        foreign.dcd_set_header_count(path, 0 if 'count0' in dia else max(0, fs['n_frames'] - 1 - fs['seed'] % 3))
                    if 'be' in dia:
                        foreign.dcd_swap_endianness(path)
                elif fs['fmt'] == 'trr':
                    tens = fs['knobs'].get('trr_tensors', '')
                    foreign.trr_rewrite(path, dia.startswith('double'), 'v' in dia.split('_')[-1] and '_' in dia, dia.endswith('f') and '_' in dia, fs['seed'],
                                        with_vir='vir' in tens, with_pres='pres' in tens)
                elif fs['fmt'] == 'xyz':
                    foreign.xyz_blank_comments(path, 'empty' if dia == 'empty_comment' else 'blank')
                elif fs['fmt'] == 'gro':
                    foreign.gro_add_velocities(path, fs['seed'])
                elif fs['fmt'] == 'nc' and dia.startswith('amber'):
                    dm = {'amber_classic': 'NETCDF3_CLASSIC', 'amber_nc4': 'NETCDF4'}.get(dia, 'NETCDF3_64BIT_OFFSET')
                    if any(g['fmt'] == 'nc' and g.get('knobs', {}).get('backend') == 'scipy' for g in case['files']):
                        dm = dm.replace('NETCDF4', 'NETCDF3_64BIT_OFFSET')      # scipy's reader (selected for this run) knows NetCDF 3 only
                    foreign.nc_as_amber_writes(path, dm, dia != 'amber_64bit', dia == 'amber_remd', fs['seed'])
                elif fs['fmt'] == 'nc' and dia == 'packed':
                    if not any(g['fmt'] == 'nc' and g.get('knobs', {}).get('backend') == 'scipy' for g in case['files']):
                        foreign.nc_pack_variables(path, [10.0, 8.0, 0.5][fs['seed'] % 3])      # unpacking is the netCDF4 library's job
            top_path = os.path.join(workdir, 'top%d.pdb' % k)
            self.files.append({'spec': fs, 'path': path, 'traj': t, 'xyz': x, 'time': tm, 'L': L, 'A': A, 'ox': origin[0],
                               'top_path': top_path, 'top_saved': False, 'F': None, 'shared_top': t.topology.copy()})

    def top_for(self, k, kind):
        f = self.files[k]
        if f['spec']['fmt'] in ('h5', 'pdb', 'gro'):
            return None
        if kind == 'path':
            if not f['top_saved']:
                f['traj'][0].save(f['top_path'])
                f['top_saved'] = True
            return f['top_path']
        if kind == 'shared':
            return f['shared_top']
        return f['traj'].topology.copy()


def _relayout_lammpstrj(path, layout, shuffle=False, seed=0):
    """rewrite the ATOMS sections of a file written by mdtraj ('id type xu yu zu') in another legal column layout and / or
    with the atom lines of every frame in another order (LAMMPS writes them unsorted unless `dump_modify sort id` is used)"""
    out = []
    block = []
    in_atoms = False
    r = np.random.RandomState(seed & 0x7FFFFFFF)

    def flush_block():
        if shuffle and len(block) > 1:
            perm = r.permutation(len(block))
            out.extend(block[k] for k in perm)
        else:
            out.extend(block)
        del block[:]

    with open(path) as fh:
        for line in fh:
            if line.startswith('ITEM:'):
                flush_block()
                in_atoms = line.startswith('ITEM: ATOMS')
                if in_atoms and layout != 'std':
                    line = {'mol_first': 'ITEM: ATOMS mol id type xu yu zu\n', 'reordered': 'ITEM: ATOMS type zu id q xu yu\n',
                            'wrapped_names': 'ITEM: ATOMS id type x y z\n',
                            'scaled_too': 'ITEM: ATOMS id type xs ys zs x y z vx vy vz\n'}[layout]
                out.append(line)
                continue
            if in_atoms and line.strip():
                if layout != 'std':
                    i, ty, x, y, z = line.split()
                    line = {'mol_first': '1 %s %s %s %s %s\n' % (i, ty, x, y, z), 'reordered': '%s %s %s 0.5 %s %s\n' % (ty, z, i, x, y),
                            'wrapped_names': '%s %s %s %s %s\n' % (i, ty, x, y, z),
                            # the documented preference: unscaled x y z are used when scaled columns are present too
                            'scaled_too': '%s %s 0.25 0.5 0.75 %s %s %s 0.1 -0.2 0.3\n' % (i, ty, x, y, z)}[layout]
                block.append(line)
            else:
                out.append(line)
    flush_block()
    with open(path, 'w') as fh:
        fh.writelines(out)


def _open(world, k):
    f = world.files[k]
    fs = f['spec']
    kw = dict(fmts.open_kwargs(fs['fmt'], fs['n_atoms']))
    if fs['fmt'] == 'mdcrd' and fs['knobs'].get('has_box_kw'):
        kw['has_box'] = fs['cell'] is not None
    if fs['fmt'] in ('xtc', 'trr'):
        for kk in ('min_chunk_size', 'chunk_size_multiplier'):
            if kk in fs['knobs']:
                kw[kk] = fs['knobs'][kk]
    if f['path'].endswith('.stk'):
        return world.md.formats.DTRTrajectoryFile(f['path'])      # the documented way to open a stack of frame sets
    return world.md.open(f['path'], **kw)


def _posclass(pos, N):
    return '0' if pos == 0 else ('N' if pos >= N else 'mid')


def _decode_ids(xyz_nm, ai, ox=0.0):
    """frame ids from the tag: x of first returned atom = origin_x + 0.1*(i+1) + 0.013*a (+- 0.004)"""
    if xyz_nm.shape[0] == 0 or xyz_nm.ndim != 3 or xyz_nm.shape[1] == 0:
        return []
    a0 = 0 if ai is None else int(ai[0])
    v = (xyz_nm[:, 0, 0].astype(np.float64) - ox - 0.013 * a0) / 0.1 - 1.0
    return [int(x) if np.isfinite(x) else -999 for x in np.round(v)]


def _check_frames(f, fmt, parts, ids, ai):
    """compare a read result with reference frames `ids` -> (kind, detail) or None"""
    xyz = np.asarray(parts['xyz'])
    exp_atoms = f['spec']['n_atoms'] if ai is None else len(ai)
    if len(ids) == 0 and xyz.shape[0] == 0:
        return None          # zero frames, in whatever empty shape the format uses
    if xyz.ndim != 3 or xyz.shape[0] != len(ids):
        got = _decode_ids(xyz, ai, f.get('ox', 0.0)) if xyz.ndim == 3 else None
        return 'count', {'expected_ids': ids, 'got_n': int(xyz.shape[0]) if xyz.ndim >= 1 else None, 'got_ids': got}
    if len(ids) == 0:
        return None
    if xyz.shape[1] != exp_atoms:
        return 'atoms', {'expected_atoms': exp_atoms, 'got_atoms': int(xyz.shape[1])}
    ref = f['xyz'][ids]
    if ai is not None:
        ref = ref[:, ai]
    if f.get('exact'):
        if not np.array_equal(xyz, ref):
            return 'frames', {'expected_ids': list(ids), 'note': 'fixture frames compared exactly with a fresh sequential read'}
        return None
    if not np.allclose(xyz, ref, atol=XTOL, rtol=0):
        got = _decode_ids(xyz, ai, f.get('ox', 0.0))
        if got != list(ids):
            return 'frames', {'expected_ids': list(ids), 'got_ids': got}
        return 'data', {'expected_ids': list(ids), 'max_abs_err': float(np.nanmax(np.abs(xyz - ref)))}
    F = fmts.FORMATS[fmt]
    if F.get('has_time') and parts.get('time') is not None:
        tm = np.asarray(parts['time'], dtype=np.float64)
        if tm.shape != (len(ids),) or not np.allclose(tm, f['time'][ids], atol=1e-3, rtol=0):
            return 'time', {'expected': [float(x) for x in f['time'][ids]], 'got': [float(x) for x in np.ravel(tm)][:20]}
    if f['L'] is not None and parts.get('lengths') is not None:
        L = np.asarray(parts['lengths'], dtype=np.float64)
        if L.shape != (len(ids), 3) or not np.allclose(L, f['L'][ids], atol=2e-3, rtol=0):
            return 'cell', {'expected': f['L'][ids].tolist()[:4], 'got': np.asarray(L).tolist()[:4]}
    return None


# ------------------------------------------------------------------ raw handle steps (C18 oracle)

class HandleClient(object):
    def __init__(self, world, k):
        self.world = world
        self.k = k
        self.h = None
        self.pos = 0
        self.eof = False       # a read has reached the end since the last absolute seek or (re)open
        self.lenwarm = False   # len() or seek() was called (XDR offset cache built)

    def ensure(self):
        if self.h is None:
            self.h = _open(self.world, self.k)
            self.pos = 0
            self.eof = False
            self.lenwarm = False

    def close(self):
        if self.h is not None:
            try:
                self.h.close()
            except Exception:
                pass
            self.h = None


def step_handle(res, check, world, hc, op, stepno, judge=True):
    f = world.files[hc.k]
    fmt = f['spec']['fmt']
    N = f['spec']['n_frames']
    kind = op['op']
    if kind == 'gc':
        gc.collect()
        res.log.append('%d gc' % stepno)
        return
    if kind == 'reopen':
        hc.close()
        hc.ensure()
        res.log.append('%d c%d reopen' % (stepno, op['c']))
        res.trace.append((fmt, 'reopen'))
        return
    hc.ensure()
    pre = hc.pos
    pc = _posclass(pre, N)
    flags = 'pos=%s,eof=%d' % (pc, 1 if hc.eof else 0)
    ai = None
    if op.get('ai') is not None:
        ai = resolve_subset(world.subsets[op['ai']], f['spec']['n_atoms'])

    def viol(k, detail, extra=''):
        if judge:
            d = dict(detail)
            d.update({'format': fmt, 'pre_pos': pre, 'n_frames': N, 'op': op})
            res.violate('%s|%s|%s|%s|%s%s' % (check, fmt, kind, k, flags, extra), stepno, d)

    try:
        if kind in ('read', 'readall'):
            n = op['n'] if kind == 'read' else None
            if kind == 'read':
                ids = list(range(pre, min(pre + n, N)))
                newpos = min(pre + n, N)
                over = pre + n > N
            else:
                ids = list(range(pre, N))
                newpos = N
                over = False
            kw = {}
            as_slice = False
            if ai is not None:
                sub = world.subsets[op['ai']]
                if sub.get('kind') == 'slice' and len(np.arange(f['spec']['n_atoms'])[sub['start']::sub['step']]):
                    kw['atom_indices'] = slice(sub['start'], None, sub['step'])
                    as_slice = True
                else:
                    kw['atom_indices'] = ai
            as_traj = bool(op.get('as_traj')) and f.get('traj') is not None and hasattr(hc.h, 'read_as_traj') \
                and not (fmt == 'dtr' and n is not None)      # DTR read_as_traj drops n_frames: known finding recorded under C02
            try:
                if as_traj:
                    kwt = dict(kw)
                    if n is not None:
                        kwt['n_frames'] = n
                    tr = hc.h.read_as_traj(**kwt) if fmt == 'h5' else hc.h.read_as_traj(f['traj'].topology, **kwt)
                    out = None
                else:
                    out = hc.h.read(n, **kw) if n is not None else hc.h.read(**kw)
            except NotImplementedError:
                res.skip('%s.%s' % (fmt, kind))
                res.log.append('%d c%d %s not-offered' % (stepno, op['c'], kind))
                return
            except Exception as e:
                odd_ai = ai is not None and world.subsets[op['ai']].get('kind') in ('unsorted', 'repeat')
                if (as_slice or odd_ai) and isinstance(e, (TypeError, ValueError, IndexError)) and pre < N:
                    # this reader does not take a slice object for atom_indices (documented as array_like), or its storage layer
                    # refuses unsorted / repeated selections (PyTables): not offered
                    res.skip('%s.read(atom_indices=%s)' % (fmt, 'slice' if as_slice else world.subsets[op['ai']].get('kind')))
                    res.log.append('%d c%d %s slice-ai not-offered' % (stepno, op['c'], kind))
                    hc.close()
                    return
                if (kind == 'read' or as_traj) and pre >= N:
                    # read(n) at end of file: signalling EOF by raising is accepted; position must stay
                    # (read_as_traj() with nothing left cannot build a Trajectory of zero frames in most readers and raises too)
                    res.probe('read_at_eof_raised')
                    res.log.append('%d c%d read(%s)@EOF raised %s' % (stepno, op['c'], n, type(e).__name__))
                    hc.eof = True
                    res.trace.append((fmt, kind, pc, 'eof-raise', hc.lenwarm))
                    return
                raise
            if as_traj:
                res.probe('read_through_read_as_traj')
                parts = {'xyz': tr.xyz, 'time': tr.time if fmts.FORMATS[fmt].get('has_time') else None,
                         'lengths': tr.unitcell_lengths, 'angles': tr.unitcell_angles}
            else:
                parts = fmts.result_parts(fmt, out)
            bad = _check_frames(f, fmt, parts, ids, ai)
            hc.pos = newpos
            if newpos >= N:
                hc.eof = True
            if over:
                res.probe('read_crossing_eof')
            if pre >= N:
                res.probe('read_at_eof')
            if ai is not None:
                res.probe('read_with_atom_indices')
            res.log.append('%d c%d %s(%s)%s @%d -> %d frames%s' % (
                stepno, op['c'], kind, n, '' if ai is None else '[ai]', pre, len(ids), '' if bad is None else ' BAD:' + bad[0]))
            res.trace.append((fmt, kind, pc, 'over' if over else 'in', hc.lenwarm, ai is not None))
            if bad is not None:
                viol(bad[0], bad[1], (',over' if over else '') + (',as_traj' if as_traj else ''))
        elif kind in ('seek', 'rseek', 'eseek'):
            target = op['k'] % N
            to_end = kind == 'rseek' and op['k'] % 11 == 0
            if to_end:
                target = N      # a relative seek to the position a read-to-end leaves: offered by most readers, refused by some
            try:
                if kind == 'seek':
                    hc.h.seek(target)
                elif kind == 'eseek':
                    hc.h.seek(target - N, 2)       # documented third mode: relative to the end, offset <= 0 (offered by few formats)
                else:
                    hc.h.seek(target - pre, 1)
            except NotImplementedError:
                res.skip('%s.%s' % (fmt, kind))
                res.log.append('%d c%d %s not-offered' % (stepno, op['c'], kind))
                return
            except Exception as e:
                if to_end:
                    # "seeking beyond the end is not supported" read strictly (XTC/TRR): not offered; the handle is reopened
                    res.skip('%s.seek_to_len' % fmt)
                    res.log.append('%d c%d rseek-to-len refused %s' % (stepno, op['c'], type(e).__name__))
                    hc.close()
                    return
                raise
            if to_end:
                res.probe('relative_seek_to_len')
            hc.pos = target
            hc.lenwarm = True
            if hc.eof:
                res.probe('seek_after_eof')
            if kind in ('seek', 'eseek'):
                hc.eof = False      # flag = "a read reached the end since the last absolute seek or (re)open"
            res.log.append('%d c%d %s %d -> %d' % (stepno, op['c'], kind, pre, target))
            res.trace.append((fmt, kind, pc, _posclass(target, N), hc.eof))
        elif kind == 'tell':
            try:
                got = hc.h.tell()
            except NotImplementedError:
                res.skip('%s.tell' % fmt)
                return
            res.log.append('%d c%d tell @%d -> %s' % (stepno, op['c'], pre, got))
            res.trace.append((fmt, 'tell', pc, hc.eof))
            if int(got) != pre:
                viol('position', {'expected': pre, 'got': int(got)})
        elif kind == 'len':
            try:
                got = len(hc.h)
            except NotImplementedError:
                res.skip('%s.len' % fmt)
                return
            except TypeError as e:
                if 'has no len' in str(e):
                    res.skip('%s.len' % fmt)
                    return
                raise
            if not hc.lenwarm and pre > 0:
                res.probe('offset_cache_built_mid_stream')
            hc.lenwarm = True
            res.log.append('%d c%d len @%d -> %s' % (stepno, op['c'], pre, got))
            res.trace.append((fmt, 'len', pc, hc.eof))
            if int(got) != N:
                viol('length', {'expected': N, 'got': int(got)})
    except Exception as e:
        res.log.append('%d c%d %s raised %s' % (stepno, op['c'], kind, type(e).__name__))
        res.trace.append((fmt, kind, pc, 'raise'))
        viol('raises:%s' % type(e).__name__, {'message': str(e)[:300]})
        # after an unexpected exception the handle's position is unknown: reopen to keep the model sound
        hc.close()


# ------------------------------------------------------------------ loader steps (C02 oracle)

def _pth(path, op):
    return pathlib.Path(path) if op.get('pathobj') else path


def _full_load(world, k, kind='obj'):
    """the reference: md.load(file, top=<the same kind of topology argument>) on a fresh handle"""
    f = world.files[k]
    if kind == 'shared':
        kind = 'obj'
    if f['F'] is None:
        f['F'] = {}
    if kind not in f['F']:
        top = world.top_for(k, kind)
        kw = {} if top is None else {'top': top}
        f['F'][kind] = world.md.load(f['path'], **kw)
    return f['F'][kind]


def _traj_eq(md, got, ref_slice, ref_top, what):
    """bit-exact comparison of a loaded piece with a slice of the full load"""
    if got.n_frames != ref_slice.n_frames:
        return 'n_frames', {'expected': ref_slice.n_frames, 'got': got.n_frames}
    if got.n_atoms != ref_slice.n_atoms:
        return 'n_atoms', {'expected': ref_slice.n_atoms, 'got': got.n_atoms}
    # Trajectory's canonical precision is float32; slicing casts, loaders sometimes hand over float64 cells
    f32 = lambda a: np.asarray(a, dtype=np.float32)
    if not np.array_equal(f32(got.xyz), f32(ref_slice.xyz)):
        ids_g = _decode_ids(got.xyz, None)
        ids_r = _decode_ids(ref_slice.xyz, None)
        if ids_g != ids_r:
            return 'frames', {'expected_tag': ids_r, 'got_tag': ids_g}
        return 'xyz', {'max_abs_err': float(np.nanmax(np.abs(got.xyz - ref_slice.xyz)))}
    if not np.array_equal(f32(got.time), f32(ref_slice.time)):
        return 'time', {'expected': np.asarray(ref_slice.time).tolist()[:20], 'got': np.asarray(got.time).tolist()[:20]}
    for nm in ('unitcell_lengths', 'unitcell_angles'):
        a, b = getattr(got, nm), getattr(ref_slice, nm)
        if (a is None) != (b is None):
            return 'cell_presence', {'field': nm, 'expected_none': b is None, 'got_none': a is None}
        if a is not None and not np.array_equal(f32(a), f32(b)):
            return 'cell', {'field': nm, 'expected': b.tolist()[:3], 'got': a.tolist()[:3]}
    if ref_top is not None:
        if got.topology is None or not (got.topology == ref_top) or \
                [a.name for a in got.topology.atoms] != [a.name for a in ref_top.atoms] or \
                [a.residue.resSeq for a in got.topology.atoms] != [a.residue.resSeq for a in ref_top.atoms]:
            return 'topology', {'expected_atoms': ref_top.n_atoms, 'got_atoms': None if got.topology is None else got.topology.n_atoms}
    return None


def _restrict(F, ai):
    if ai is None:
        return F, F.topology
    sub = F.atom_slice(ai)
    return sub, sub.topology


class GenClient(object):
    def __init__(self, op, world):
        self.op = op
        self.chunks = []
        self.done = False
        self.failed = False
        self.gen = None


def _gen_flags(op, N):
    fl = []
    if op['stride'] > 1:
        fl.append('stride>1')
    if op['chunk'] == 0:
        fl.append('chunk=0')
    elif op['stride'] > 1 and op['chunk'] % op['stride'] != 0:
        fl.append('chunk%stride!=0')
    if op['skip'] >= N:
        fl.append('skip=N')
    elif op['skip'] > 0:
        fl.append('skip>0')
    if op.get('ai') is not None:
        fl.append('ai')
    return ','.join(fl) or 'plain'


def _finish_gen(res, check, world, gc_, stepno, terminated):
    op = gc_.op
    f = world.files[op['f']]
    fmt = f['spec']['fmt']
    N = f['spec']['n_frames']
    md = world.md
    flags = _gen_flags(op, N)
    ai = resolve_subset(world.subsets[op['ai']], f['spec']['n_atoms']) if op.get('ai') is not None else None

    def viol(k, detail):
        d = dict(detail)
        d.update({'format': fmt, 'n_frames': N, 'op': op, 'chunk_lengths': [c.n_frames for c in gc_.chunks]})
        res.violate('%s|%s|iterload|%s|%s' % (check, fmt, k, flags), stepno, d)

    if not terminated:
        viol('no_termination', {'chunks_yielded': len(gc_.chunks)})
        return
    F = _full_load(world, op['f'], op['top'])
    R, Rtop = _restrict(F, ai)
    skip = min(op['skip'], N)
    chunk, stride = op['chunk'], op['stride']
    exp = R[skip::stride]
    chunks = gc_.chunks
    if chunk == 0:
        # one chunk holding everything; stride-then-skip is also accepted when both are active
        alts = [exp]
        if stride > 1 and skip > 0:
            alts.append(R[::stride][skip:])
        if len(chunks) != 1:
            viol('chunk_count', {'expected': 1, 'got': len(chunks)})
            return
        bad = None
        for alt in alts:
            bad = _traj_eq(md, chunks[0], alt, Rtop, 'chunk0')
            if bad is None:
                break
        if bad is not None:
            viol(bad[0], bad[1])
        return
    lens = [c.n_frames for c in chunks]
    n_exp = exp.n_frames
    exp_lens = [chunk] * (n_exp // chunk) + ([n_exp % chunk] if n_exp % chunk else [])
    if n_exp == 0:
        if sum(lens) != 0:
            viol('frames', {'expected_total': 0, 'got_total': sum(lens)})
        return
    if sum(lens) == 0:
        viol('n_frames', {'expected': n_exp, 'got': 0})
        return
    cat = chunks[0] if len(chunks) == 1 else md.join(chunks, check_topology=False)
    bad = _traj_eq(md, cat, exp, None, 'cat')
    if bad is not None:
        viol(bad[0], bad[1])
        return
    if lens != exp_lens:
        viol('chunk_sizes', {'expected': exp_lens, 'got': lens})
        return
    for c in chunks:
        if c.topology is None or not (c.topology == Rtop):
            viol('topology', {'expected_atoms': Rtop.n_atoms})
            return


def step_loader(res, check, world, gens, op, stepno):
    md = world.md
    kind = op['op']
    if kind == 'iter_new':
        f = world.files[op['f']]
        fmt = f['spec']['fmt']
        top = world.top_for(op['f'], op['top'])
        kw = {'stride': op['stride'], 'skip': op['skip']}
        if top is not None:
            kw['top'] = top
        if op.get('ai') is not None:
            kw['atom_indices'] = resolve_subset(world.subsets[op['ai']], f['spec']['n_atoms'])
        g = GenClient(op, world)
        g.gen = md.iterload(_pth(f['path'], op), chunk=op['chunk'], **kw)
        gens[op['g']] = g
        res.log.append('%d g%d iterload %s chunk=%d stride=%d skip=%d%s' % (
            stepno, op['g'], fmt, op['chunk'], op['stride'], op['skip'], ' ai' if op.get('ai') is not None else ''))
        res.trace.append((fmt, 'iter_new', _gen_flags(op, f['spec']['n_frames'])))
        return
    if kind in ('iter_next', 'iter_drain'):
        g = gens.get(op['g'])
        if g is None or g.done:
            return
        f = world.files[g.op['f']]
        fmt = f['spec']['fmt']
        N = f['spec']['n_frames']
        cap = N + 5
        others_alive = sum(1 for x in gens.values() if x is not g and not x.done and x.gen is not None)
        if others_alive:
            res.probe('generators_interleaved')
        while True:
            try:
                c = next(g.gen)
                g.chunks.append(c)
                res.log.append('%d g%d next -> %d frames' % (stepno, op['g'], c.n_frames))
                if len(g.chunks) > cap:
                    g.done = True
                    try:
                        g.gen.close()
                    except Exception:
                        pass
                    _finish_gen(res, check, world, g, stepno, terminated=False)
                    break
            except StopIteration:
                g.done = True
                res.log.append('%d g%d exhausted after %d chunks' % (stepno, op['g'], len(g.chunks)))
                _finish_gen(res, check, world, g, stepno, terminated=True)
                break
            except NotImplementedError:
                g.done = True
                res.skip('%s.iterload(%s)' % (fmt, _gen_flags(g.op, N)))
                break
            except Exception as e:
                g.done = True
                res.log.append('%d g%d next raised %s' % (stepno, op['g'], type(e).__name__))
                d = {'message': str(e)[:300], 'format': fmt, 'n_frames': N, 'op': g.op,
                     'chunks_before': [c.n_frames for c in g.chunks]}
                res.violate('%s|%s|iterload|raises:%s|%s' % (check, fmt, type(e).__name__, _gen_flags(g.op, N)), stepno, d)
                break
            if kind == 'iter_next':
                break
        res.trace.append((fmt, kind, _gen_flags(g.op, N), len(g.chunks) > 1))
        return
    # one-shot loads
    if kind in ('load', 'load_frame', 'load_kwframe'):
        k = op['f']
        f = world.files[k]
        fmt = f['spec']['fmt']
        N = f['spec']['n_frames']
        top = world.top_for(k, op['top'])
        ai = resolve_subset(world.subsets[op['ai']], f['spec']['n_atoms']) if op.get('ai') is not None else None
        kw = {}
        if top is not None:
            kw['top'] = top
        if ai is not None:
            kw['atom_indices'] = ai
        patched = op['top'] == 'shared' and 'subset' in getattr(f['shared_top'], '__dict__', {})
        flags = ('ai' if ai is not None else 'all') + (',top_patched' if patched else '')
        F = _full_load(world, k, op['top'])
        R, Rtop = _restrict(F, ai)
        try:
            if kind == 'load':
                if op['stride'] is not None:
                    kw['stride'] = op['stride']
                got = md.load(_pth(f['path'], op), **kw)
                exp = R[::(op['stride'] or 1)]
                flags += ',stride>1' if (op['stride'] or 1) > 1 else ''
            elif kind == 'load_frame':
                i = op['i'] % N
                got = md.load_frame(_pth(f['path'], op), i, **kw)
                exp = R[i]
                flags += ',i=%s' % _posclass(i, N - 1 if N > 1 else 1)
            else:
                i = op['i'] % N
                got = md.load(_pth(f['path'], op), frame=i, **kw)
                exp = R[i]
                flags += ',i=%s' % _posclass(i, N - 1 if N > 1 else 1)
        except NotImplementedError:
            res.skip('%s.%s' % (fmt, kind))
            return
        except Exception as e:
            res.log.append('%d %s f%d raised %s' % (stepno, kind, k, type(e).__name__))
            res.violate('%s|%s|%s|raises:%s|%s' % (check, fmt, kind, type(e).__name__, flags), stepno,
                        {'message': str(e)[:300], 'op': op, 'n_frames': N, 'format': fmt})
            return
        bad = _traj_eq(md, got, exp, Rtop, kind)
        res.log.append('%d %s f%d -> %d frames%s' % (stepno, kind, k, got.n_frames, '' if bad is None else ' BAD:' + bad[0]))
        res.trace.append((fmt, kind, flags))
        if bad is not None:
            d = dict(bad[1])
            d.update({'op': op, 'n_frames': N, 'format': fmt})
            res.violate('%s|%s|%s|%s|%s' % (check, fmt, kind, bad[0], flags), stepno, d)
        return
    if kind == 'load_list_bad':
        k0 = op['fs'][0]
        f0 = world.files[k0]
        fmt = f0['spec']['fmt']
        if fmt == 'dtr':
            return
        bad = os.path.join(os.path.dirname(f0['path']), 'bad_%d%s' % (stepno, fmts.FORMATS[fmt]['ext']))
        with open(f0['path'], 'rb') as fh:
            data = fh.read()
        with open(bad, 'wb') as fh:
            fh.write(data[:max(1, int(len(data) * 0.55))] if op['bad'] == 'truncated' else (b'' if op['bad'] == 'empty' else b'not a trajectory \x00\x01' * 20))
        top = world.top_for(k0, op['top'])
        ai = resolve_subset(world.subsets[op['ai']], f0['spec']['n_atoms']) if op.get('ai') is not None else None
        kw = {}
        if top is not None:
            kw['top'] = top
        if ai is not None:
            kw['atom_indices'] = ai
        if op['stride'] is not None:
            kw['stride'] = op['stride']
        res.fault('unreadable_file_in_list:' + op['bad'])
        try:
            md.load([f0['path'], bad], **kw)
            outcome = 'loaded'
        except Exception as e:
            outcome = 'raised ' + type(e).__name__
        res.log.append('%d load_list_bad(%s) -> %s' % (stepno, op['bad'], outcome))
        res.trace.append((fmt, 'load_list_bad', op['bad'], outcome.split()[0], ai is not None, op['top']))
        try:
            os.unlink(bad)
        except OSError:
            pass
        return
    if kind == 'load_list':
        ks = op['fs']
        f0 = world.files[ks[0]]
        fmt = f0['spec']['fmt']
        top = world.top_for(ks[0], op['top'])
        ai = resolve_subset(world.subsets[op['ai']], f0['spec']['n_atoms']) if op.get('ai') is not None else None
        kw = {}
        if top is not None:
            kw['top'] = top
        if ai is not None:
            kw['atom_indices'] = ai
        if op['stride'] is not None:
            kw['stride'] = op['stride']
        if op.get('discard'):
            kw['discard_overlapping_frames'] = True
        patched = op['top'] == 'shared' and 'subset' in getattr(f0['shared_top'], '__dict__', {})
        flags = 'k=%d,%s%s%s' % (len(ks), 'ai' if ai is not None else 'all', ',top_patched' if patched else '', ',discard' if op.get('discard') else '')
        try:
            got = md.load([_pth(world.files[k]['path'], op) for k in ks], **kw)
        except NotImplementedError:
            res.skip('%s.load_list' % fmt)
            return
        except Exception as e:
            res.log.append('%d load_list raised %s' % (stepno, type(e).__name__))
            res.violate('%s|%s|load_list|raises:%s|%s' % (check, fmt, type(e).__name__, flags), stepno,
                        {'message': str(e)[:300], 'op': op, 'format': fmt})
            return
        # reference: join of the individual loads (each = its full load strided and restricted)
        pieces = []
        for k in ks:
            R, Rtop = _restrict(_full_load(world, k, op['top']), ai)
            pieces.append(R[::(op['stride'] or 1)])
        exp = pieces[0] if len(pieces) == 1 else md.join(pieces, check_topology=False, discard_overlapping_frames=bool(op.get('discard')))
        if op.get('discard') and len(pieces) > 1 and exp.n_frames < sum(p_.n_frames for p_ in pieces):
            res.probe('list_load_discarded_a_real_overlap')
        bad = _traj_eq(md, got, exp, pieces[0].topology, 'load_list')
        res.log.append('%d load_list %s -> %d frames%s' % (stepno, ks, got.n_frames, '' if bad is None else ' BAD:' + bad[0]))
        res.trace.append((fmt, 'load_list', flags))
        if len(ks) > 1 and ai is not None and op['top'] == 'shared':
            res.probe('list_load_shared_top_with_ai')
        if bad is not None:
            d = dict(bad[1])
            d.update({'op': op, 'format': fmt})
            res.violate('%s|%s|load_list|%s|%s' % (check, fmt, bad[0], flags), stepno, d)
        return


# ------------------------------------------------------------------ execute

def execute(check, case, workdir):
    import sys
    hide = any(f['fmt'] == 'nc' and f.get('knobs', {}).get('backend') == 'scipy' for f in case['files'])
    saved = sys.modules.get('netCDF4', 'absent')
    if hide:
        sys.modules['netCDF4'] = None
    try:
        res = _execute(check, case, workdir)
        if hide:
            res.probe('netcdf_scipy_backend')
        return res
    finally:
        if hide:
            if saved == 'absent':
                sys.modules.pop('netCDF4', None)
            else:
                sys.modules['netCDF4'] = saved


def _execute(check, case, workdir):
    import warnings
    warnings.simplefilter('ignore')
    res = Result()
    world = World(case, workdir)
    world.subsets = case['subsets']
    clients = [HandleClient(world, h['file'] % len(world.files)) for h in case['handles']]
    gens = {}
    try:
        if check == 'C18':
            # precondition: a sequential read on a fresh handle returns frames 0..N-1 (writer/reader sanity)
            for k, f in enumerate(world.files):
                h = _open(world, k)
                try:
                    parts = fmts.result_parts(f['spec']['fmt'], h.read())
                except Exception as e:
                    # the plainest history of all -- open, read to the end -- fails on this file
                    res.violate('%s|%s|sequential_read|raises:%s|fresh' % (check, f['spec']['fmt'], type(e).__name__), -1,
                                {'message': str(e)[:300], 'file': f['spec']})
                    return res
                finally:
                    h.close()
                bad = _check_frames(f, f['spec']['fmt'], parts, list(range(f['spec']['n_frames'])), None)
                if bad is not None:
                    res.violate('%s|%s|sequential_read|%s|fresh' % (check, f['spec']['fmt'], bad[0]), -1,
                                dict(bad[1], file=f['spec']))
                    return res
        for stepno, op in enumerate(case['ops']):
            res.steps += 1
            if 'c' in op:
                if op['c'] >= len(clients):
                    continue
                hc = clients[op['c']]
                others = [c for c in clients if c is not hc and c.h is not None and c.k == hc.k]
                if others:
                    res.probe('second_handle_open_on_same_file')
                step_handle(res, check, world, hc, op, stepno, judge=(check == 'C18'))
            else:
                if op['op'] == 'iter_new' and op['f'] >= len(world.files):
                    continue
                if 'f' in op and op['f'] >= len(world.files):
                    continue
                if 'fs' in op and any(k >= len(world.files) for k in op['fs']):
                    continue
                step_loader(res, check, world, gens, op, stepno)
        # generators still alive at the end are drained (bounded) so every started iteration is judged
        if check == 'C02':
            for gid in sorted(gens):
                g = gens[gid]
                if not g.done:
                    step_loader(res, check, world, gens, {'op': 'iter_drain', 'g': gid}, len(case['ops']))
    finally:
        for c in clients:
            c.close()
        for g in gens.values():
            try:
                if g.gen is not None:
                    g.gen.close()
            except Exception:
                pass
    return res


# ------------------------------------------------------------------ world shrinking

def shrink_world(check, case):
    """simpler worlds / arguments, tried one at a time by the minimiser"""
    import copy
    # fewer files (only when ops do not reference the dropped one)
    nf = len(case['files'])
    if nf > 1:
        used = set()
        for h in case['handles']:
            used.add(h['file'])
        for o in case['ops']:
            if 'f' in o:
                used.add(o['f'])
            for k in o.get('fs', []):
                used.add(k)
        if (nf - 1) not in used:
            c = copy.deepcopy(case)
            c['files'].pop()
            yield c
    for k in range(len(case['files'])):
        fs = case['files'][k]
        if fs['fmt'] == 'arc':
            continue
        for key, cands in (('n_frames', [1, 2, 3, 4, 5, fs['n_frames'] // 2, fs['n_frames'] - 1]),
                           ('n_atoms', [1, 3, 10])):
            for v in cands:
                if 1 <= v < fs[key]:
                    if key == 'n_atoms' and (check == 'C02' or fs['fmt'] in ('pdb', 'gro', 'mdcrd')) and v < 3:
                        continue
                    c = copy.deepcopy(case)
                    if key == 'n_atoms' and check == 'C02':
                        for ff in c['files']:
                            ff['n_atoms'] = v
                    else:
                        c['files'][k][key] = v
                    yield c
        if fs['knobs']:
            c = copy.deepcopy(case)
            c['files'][k]['knobs'] = {}
            yield c
        if fs['cell'] is not None and fmts.cell_for(fs['fmt'], None) is None:
            c = copy.deepcopy(case)
            if check == 'C02':
                for ff in c['files']:
                    ff['cell'] = None
            else:
                c['files'][k]['cell'] = None
            yield c
    for i, o in enumerate(case['ops']):
        for key, cands in (('n', [1, 2, 3]), ('k', [0, 1, 2, 3]), ('chunk', [1, 2, 3]), ('stride', [1, 2, 3]),
                           ('skip', [0, 1, 2]), ('i', [0, 1])):
            if key in o and isinstance(o[key], int):
                for v in cands:
                    if v < o[key]:
                        c = copy.deepcopy(case)
                        c['ops'][i][key] = v
                        yield c
        if 'ai' in o:
            c = copy.deepcopy(case)
            del c['ops'][i]['ai']
            yield c
        if o.get('top') in ('path', 'shared'):
            c = copy.deepcopy(case)
            c['ops'][i]['top'] = 'obj'
            yield c
        if 'fs' in o and len(o['fs']) > 1:
            c = copy.deepcopy(case)
            c['ops'][i]['fs'] = o['fs'][:-1]
            yield c
