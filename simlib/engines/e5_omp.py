"""E5 omp-sim (C08): the OpenMP team of the C/Cython kernels runs under csrc/simgomp.c, a seeded
baton scheduler linked in place of libgomp.  Per run: a seeded protein fragment trajectory, a seeded
subset of per-frame analyses, and a sampled schedule space: team size, per-yield switch probability,
scheduler seed, and the *frame schedule* (whole trajectory, each frame alone, permutation, sub-selection,
split into consecutive calls).

Oracle (i)  threads/runs: for a fixed frame schedule every (team, interleaving) gives bit-identical results.
Oracle (ii) frame context: the result of frame i in any frame schedule equals f(traj[i])[0]
            (bit-exact for compiled per-frame kernels, tolerance for numpy reductions over the frame axis)."""
import ctypes
import os

import numpy as np

from ..core import Result

VERIF = os.path.dirname(os.path.dirname(os.path.dirname(os.path.abspath(__file__))))
TEAMS = [1, 2, 3, 5, 8, 16]
SWITCH = [0.0, 1e-8, 1e-7, 1e-6, 1e-5, 1e-4]

_state = {'libs': None, 'base': None, 'sim': False}

# name -> rule ('exact' | 'tol'), needs
FUNCS = {
    'distances_opt': 'exact', 'distances_np': 'exact', 'distances_pbc': 'exact', 'displacements': 'exact',
    'angles': 'exact', 'dihedrals': 'exact', 'phi': 'exact', 'psi': 'exact', 'chi1': 'exact',
    'rmsd_par': 'exact', 'rmsd_ser': 'exact', 'rmsd_pre': 'exact', 'rmsd_ai': 'exact', 'rmsd_pre_view': 'exact', 'lprmsd': 'exact', 'center': 'exact', 'superpose': 'exact',
    'sasa_atom': 'exact', 'sasa_residue': 'exact', 'dssp': 'exact', 'dssp_full': 'exact', 'kabsch_sander': 'exact', 'wernet_nilsson': 'exact',
    'neighbors': 'exact', 'neighborlist': 'exact', 'contacts_ca': 'exact', 'contacts_closest': 'exact', 'drid': 'exact',
    # numpy reductions over the atoms of each frame: measured bit-identical for a frame alone, in company and permuted on the
    # unchanged tree (DESIGN.md section 9), so they are held to the same standard as the compiled kernels
    'rg': 'exact', 'com': 'exact', 'gyration': 'exact', 'inertia': 'exact', 'principal_moments': 'exact',
    'rg_masses': 'exact', 'cog': 'exact', 'asphericity': 'exact', 'acylindricity': 'exact', 'shape_anisotropy': 'exact',
    'nematic_order': 'exact', 'directors': 'exact', 'density': 'exact', 'dipole_moments': 'exact',
    'lprmsd_groups': 'exact', 'lprmsd_ai': 'exact', 'superpose_self': 'exact', 'lprmsd_solute': 'exact', 'sasa_radii': 'exact',
    # (no rmsd(t, t, k) variant: with the reference inside the target the reference frame is centred twice, which legitimately
    # moves the float32 result -- by 1e-7 in general and by the QCP's 1e-4 square-root noise where the RMSD is zero)
    'angles_pbc': 'exact', 'dihedrals_pbc': 'exact', 'displacements_pbc': 'exact', 'distances_pbc_np': 'exact',
    'contacts_closest_heavy': 'exact', 'contacts_sidechain': 'exact', 'closest_contact': 'exact', 'omega': 'exact',
    'rmsf': 'threads_only',
}
FUNC_WEIGHTS = [(k, 3 if k.startswith(('sasa', 'rmsd', 'center', 'superpose', 'lprmsd', 'drid', 'neighborlist')) else 2) for k in sorted(FUNCS)]


def setup_worker(check, spec):
    import mdtraj as md
    from mdtraj import _rmsd, _lprmsd
    from mdtraj.geometry import _geometry, drid, neighborlist
    libs = {}
    sim = bool(spec.get('sim_omp'))
    if sim:
        for name, mod in (('_geometry', _geometry), ('_rmsd', _rmsd), ('_lprmsd', _lprmsd), ('drid', drid), ('neighborlist', neighborlist)):
            lib = ctypes.CDLL(mod.__file__)
            lib.simgomp_config.argtypes = [ctypes.c_int, ctypes.c_uint64, ctypes.c_double]
            lib.simgomp_config.restype = None
            lib.simgomp_stats.argtypes = [ctypes.POINTER(ctypes.c_uint64)]
            lib.simgomp_stats.restype = None
            libs[name] = lib
    _state['libs'] = libs
    _state['sim'] = sim
    import warnings
    warnings.simplefilter('ignore')
    _state['base'] = md.load(os.path.join(VERIF, 'data', '2EQQ.pdb'))


def configure(team, seed, prob):
    for lib in _state['libs'].values():
        lib.simgomp_config(int(team), ctypes.c_uint64(seed & 0xFFFFFFFFFFFFFFFF), float(prob))


def stats():
    tot = [0] * 7
    h = 0
    for name in sorted(_state['libs']):
        a = (ctypes.c_uint64 * 7)()
        _state['libs'][name].simgomp_stats(a)
        for k in (0, 1, 2, 3, 6):
            tot[k] += int(a[k])
        tot[5] = max(tot[5], int(a[5]))
        h = (h * 1099511628211 + int(a[4])) & 0xFFFFFFFFFFFFFFFF
    tot[4] = h
    return tot


# ------------------------------------------------------------------ generation

def generate(check, rng, tier, run_index):
    n_frames = rng.weighted([(1, 1), (2, 2), (3, 3), (4, 3), (5, 2), (7, 2), (rng.randint(8, 12), 2)])
    res_lo = rng.randint(0, 18)
    n_res = rng.randint(4, 9)
    funcs = rng.sample(sorted(FUNCS), rng.randint(3, 6))
    scheds = []
    for _ in range(rng.randint(2, 4)):
        team = rng.choice(TEAMS + [n_frames + 3])
        scheds.append({'team': team, 'prob': rng.choice(SWITCH), 'seed': rng.below(1 << 40) + 1})
    contexts = ['alone']
    for c in ('perm', 'subset', 'split', 'repeat'):
        if rng.chance(0.6):
            contexts.append(c)
    ops = []
    for f in funcs:
        ops.append({'op': 'threads', 'f': f})
        for c in contexts:
            ops.append({'op': 'context', 'f': f, 'ctx': c, 'seed': rng.below(1 << 30), 'team': rng.choice([1, 1, 2, 3, 5]),
                        'prob': rng.choice(SWITCH), 'sseed': rng.below(1 << 40) + 1})
    rng.shuffle(ops)       # evaluations of different functions interleave (state kept between calls of a kernel shows up inside a run)
    case = {'check': check, 'n_frames': n_frames, 'res_lo': res_lo, 'n_res': n_res, 'seed': rng.below(1 << 30),
            'cell': rng.chance(0.4), 'noise': rng.choice([0.0, 0.01, 0.05]), 'scheds': scheds, 'ops': ops}
    if rng.chance(0.3):
        # an incomplete residue inside the fragment (missing backbone C or O, as in many deposited structures):
        # the per-residue kernels must skip it without borrowing coordinates from anywhere else
        case['drop_backbone'] = {'res': rng.below(1 << 10), 'atom': rng.choice(['C', 'O', 'N', 'CA'])}
    if rng.chance(0.3):
        case['tumble'] = True
    if rng.chance(0.012):
        # a long trajectory of the whole molecule: result arrays of tens of millions of elements, beyond any internal
        # block / buffer size (the small fragments above never leave the first block of anything).  Few functions, and the
        # frame-context clauses are judged on a sample of frames (first, middle, the last three, some random ones).
        bulk = ['contacts_closest', 'contacts_closest_heavy', 'contacts_sidechain', 'distances_opt', 'neighbors', 'rg', 'dssp',
                'rmsd_par', 'com', 'kabsch_sander', 'drid', 'sasa_residue', 'neighborlist', 'sasa_radii']
        funcs = rng.sample(bulk, 3)
        ops = []
        for f in funcs:
            ops.append({'op': 'threads', 'f': f})
            for c in ('alone', 'subset'):
                ops.append({'op': 'context', 'f': f, 'ctx': c, 'seed': rng.below(1 << 30), 'team': rng.choice([1, 2, 3]),
                            'prob': rng.choice(SWITCH), 'sseed': rng.below(1 << 40) + 1})
        rng.shuffle(ops)
        case.update({'big': True, 'n_frames': rng.randint(240, 420), 'res_lo': 0, 'n_res': 28, 'ops': ops, 'scheds': scheds[:1]})
        case.pop('drop_backbone', None)
        return case
    if n_frames >= 2 and rng.chance(0.25):
        # one degenerate frame somewhere in the trajectory: a frame never filled in (all zeros, as in a preallocated array), or a
        # carbonyl whose O sits on its C.  Whatever a kernel makes of that frame, the *other* frames' results must not notice.
        case['degenerate'] = {'frame': rng.below(n_frames), 'kind': rng.choice(['zeros', 'zeros', 'carbonyl']), 'res': rng.below(1 << 10)}
        case['ops'] = [o for o in case['ops'] if not o['f'].startswith('sasa')]       # sasa.cpp calls exit() on coincident atoms
        if not case['ops']:
            del case['degenerate']
            case['ops'] = ops
    return case


# ------------------------------------------------------------------ workload

def make_traj(md, case):
    base = _state['base']
    top = base.topology
    lo = case['res_lo'] % max(1, top.n_residues - case['n_res'])
    sel = [a.index for a in top.atoms if lo <= a.residue.index < lo + case['n_res']]
    db = case.get('drop_backbone')
    if db:
        victim = lo + db['res'] % max(1, case['n_res'] - 1)       # never the last residue of the fragment
        sel = [i for i in sel if not (top.atom(i).residue.index == victim and top.atom(i).name == db['atom'])]
    r = np.random.RandomState(case['seed'])
    frames = r.choice(base.n_frames, size=case['n_frames'], replace=case['n_frames'] > base.n_frames)
    t = base[frames].atom_slice(sel)
    xyz = t.xyz.astype(np.float64)
    if case['noise']:
        xyz = xyz + r.normal(scale=case['noise'], size=xyz.shape)
    # different overall scale per frame: a value carried over from a neighbour frame is far off
    xyz = xyz * (1.0 + 0.02 * np.arange(case['n_frames']))[:, None, None]
    if case.get('tumble'):
        # the molecule tumbles: every frame in another orientation about its centroid, some of them exact half-turns of frame 0's
        # orientation (quaternion methods are at their least comfortable near 180 degrees)
        rr = np.random.RandomState(case['seed'] ^ 0x2545F491)
        for k in range(case['n_frames']):
            c = xyz[k].mean(0)
            if k % 3 == 1:
                ax = k // 3 % 3
                R = -np.eye(3)
                R[ax, ax] = 1.0
            elif k == 0:
                continue
            else:
                q = rr.normal(size=4)
                q /= np.linalg.norm(q)
                w_, x_, y_, z_ = q
                R = np.array([[1 - 2 * (y_ * y_ + z_ * z_), 2 * (x_ * y_ - z_ * w_), 2 * (x_ * z_ + y_ * w_)],
                              [2 * (x_ * y_ + z_ * w_), 1 - 2 * (x_ * x_ + z_ * z_), 2 * (y_ * z_ - x_ * w_)],
                              [2 * (x_ * z_ - y_ * w_), 2 * (y_ * z_ + x_ * w_), 1 - 2 * (x_ * x_ + y_ * y_)]])
            xyz[k] = (xyz[k] - c) @ R.T + c
    dg = case.get('degenerate')
    if dg:
        k = dg['frame'] % case['n_frames']
        if dg['kind'] == 'zeros':
            xyz[k] = 0.0
        else:
            rs = [r for r in t.topology.residues if any(a.name == 'C' for a in r.atoms) and any(a.name == 'O' for a in r.atoms)]
            if rs:
                r_ = rs[dg['res'] % len(rs)]
                ic = [a.index for a in r_.atoms if a.name == 'C'][0]
                io = [a.index for a in r_.atoms if a.name == 'O'][0]
                xyz[k, io] = xyz[k, ic]
    L = A = None
    if case['cell']:
        ext = float(np.abs(xyz).max()) * 2 + 2.0
        if case['seed'] % 2 == 0:
            ext = max(1.0, float(np.ptp(xyz.reshape(-1, 3), axis=0).max()) * 0.6)      # smaller than the fragment: minimum-image shifts happen
        L = np.tile(np.array([ext, ext * 1.1, ext * 1.2], dtype=np.float32), (case['n_frames'], 1))
        L = L * (1.0 + 0.01 * np.arange(case['n_frames']))[:, None].astype(np.float32)
        A = np.tile(np.array([90.0, 90.0, 90.0], dtype=np.float32), (case['n_frames'], 1))
        if case['seed'] % 3 == 0:
            A = np.tile(np.array([80.0, 95.0, 105.0], dtype=np.float32), (case['n_frames'], 1))
            A[:, 0] += (np.arange(case['n_frames']) % 4).astype(np.float32)
        elif case['seed'] % 3 == 2:
            # cell shape changes along the trajectory: orthorhombic frames (the first one among them) and triclinic frames
            tri = (np.arange(case['n_frames']) % 2 == 1)
            A[tri] = np.array([75.0, 100.0, 110.0], dtype=np.float32)
    return {'xyz': xyz.astype(np.float32), 'top': t.topology, 'L': L, 'A': A}


def fresh(md, w, idx=None):
    """a fresh Trajectory (independent arrays) of the frames idx"""
    # whole-trajectory evaluations share one Topology object for the length of the run (as repeated analyses of one loaded
    # trajectory do); every other evaluation gets its own copy (as t[i] / t[idx] give): anything a function leaves behind on
    # the topology object then shows as a difference between the two
    top = w['top'] if idx is None else w['top'].copy()
    if idx is None:
        idx = np.arange(len(w['xyz']))
    idx = np.asarray(idx)
    return md.Trajectory(w['xyz'][idx].copy(), top, unitcell_lengths=None if w['L'] is None else w['L'][idx].copy(),
                         unitcell_angles=None if w['A'] is None else w['A'][idx].copy())


def _pairs(n, seed, k=6, width=2):
    r = np.random.RandomState(seed)
    return np.array([r.choice(n, size=width, replace=False) for _ in range(k)], dtype=int)


def evaluate(md, name, w, idx, fseed):
    """per-frame results of function `name` on a fresh trajectory of frames idx -> list (one entry per frame)"""
    whole = idx is None
    if idx is None:
        idx = list(range(len(w['xyz'])))
    t = fresh(md, w, None if whole else idx)
    n = t.n_atoms
    ref = fresh(md, w, [0])                      # reference conformation: always the workload's frame 0
    if name == 'distances_opt':
        out = md.compute_distances(t, _pairs(n, fseed), periodic=False, opt=True)
    elif name == 'distances_np':
        out = md.compute_distances(t, _pairs(n, fseed), periodic=False, opt=False)
    elif name == 'distances_pbc':
        out = md.compute_distances(t, _pairs(n, fseed), periodic=True, opt=True)
    elif name == 'displacements':
        out = md.compute_displacements(t, _pairs(n, fseed), periodic=False)
    elif name == 'angles':
        out = md.compute_angles(t, _pairs(n, fseed, 5, 3), periodic=False)
    elif name == 'dihedrals':
        out = md.compute_dihedrals(t, _pairs(n, fseed, 5, 4), periodic=False)
    elif name == 'phi':
        out = md.compute_phi(t, periodic=False)[1]
    elif name == 'psi':
        out = md.compute_psi(t, periodic=False)[1]
    elif name == 'chi1':
        out = md.compute_chi1(t, periodic=False)[1]
    elif name == 'rmsd_par':
        out = md.rmsd(t, ref, 0, parallel=True)
    elif name == 'rmsd_ser':
        out = md.rmsd(t, ref, 0, parallel=False)
    elif name == 'rmsd_pre':
        t.center_coordinates()
        ref.center_coordinates()
        out = md.rmsd(t, ref, 0, parallel=True, precentered=True)
    elif name == 'rmsd_pre_view':
        # the frames are taken out of the centred full trajectory as a slice(copy=False) view; the precentered shortcut on the
        # view must give each frame the value it has alone
        full = fresh(md, w, None)
        full.center_coordinates()
        ref.center_coordinates()
        view = full.slice(np.asarray(idx, dtype=int), copy=False)
        out = md.rmsd(view, ref, 0, parallel=True, precentered=True)
    elif name == 'rmsd_ai':
        out = md.rmsd(t, ref, 0, atom_indices=np.arange(0, n, 2), parallel=True)
    elif name == 'lprmsd':
        out = md.lprmsd(t, ref, 0, parallel=True)
    elif name == 'lprmsd_groups':
        # a few interchangeable atoms only (everything else keeps its label)
        g = [np.arange(0, min(3, n))] + ([np.arange(5, min(9, n))] if n > 6 else [])
        out = md.lprmsd(t, ref, 0, permute_groups=g, parallel=True)
    elif name == 'lprmsd_solute':
        # a small solute (four labelled atoms) among interchangeable particles: the rotation is fitted on the four alone
        out = md.lprmsd(t, ref, 0, permute_groups=[np.arange(4, n)], parallel=bool(fseed % 2))
    elif name == 'lprmsd_ai':
        sel = np.arange(0, n, 2)
        out = md.lprmsd(t, ref, 0, atom_indices=sel, permute_groups=[np.arange(min(4, len(sel)))], parallel=bool(fseed % 2))
    elif name == 'center':
        t.center_coordinates()
        out = t.xyz
    elif name == 'superpose':
        t.superpose(ref, 0, parallel=True)
        out = t.xyz
    elif name == 'superpose_self':
        # the reference (always the workload's frame 0) is a frame of the very trajectory being superposed whenever frame 0 is
        # among the frames of this call, a separate object otherwise: the result for a frame must not care
        if 0 in list(idx):
            t.superpose(t, frame=list(idx).index(0), parallel=True)
        else:
            t.superpose(ref, 0, parallel=True)
        out = t.xyz
    elif name == 'sasa_atom':
        out = md.shrake_rupley(t, mode='atom', n_sphere_points=120)
    elif name == 'sasa_radii':
        out = md.shrake_rupley(t, mode='atom', n_sphere_points=60, change_radii={'C': 0.2, 'N': 0.12})
    elif name == 'sasa_residue':
        out = md.shrake_rupley(t, mode='residue', n_sphere_points=60)
    elif name == 'dssp':
        out = md.compute_dssp(t, simplified=True)
    elif name == 'dssp_full':
        out = md.compute_dssp(t, simplified=False)
    elif name == 'kabsch_sander':
        ks = md.kabsch_sander(t)
        out = [np.asarray(m.todense()) for m in ks]
    elif name == 'wernet_nilsson':
        out = [np.asarray(x) for x in md.wernet_nilsson(t, periodic=False)]
    elif name == 'neighbors':
        out = [np.sort(np.asarray(x)) for x in md.compute_neighbors(t, 0.45, np.arange(0, n, 7), periodic=False)]
    elif name == 'neighborlist':
        out = []
        for k in range(t.n_frames):
            nl = md.compute_neighborlist(t, 0.4, frame=k, periodic=w['L'] is not None)
            out.append([np.asarray(x) for x in nl])
    elif name == 'contacts_ca':
        out = md.compute_contacts(t, 'all', scheme='ca', periodic=False)[0]
    elif name == 'contacts_closest':
        out = md.compute_contacts(t, 'all', scheme='closest', periodic=False)[0]
    elif name == 'drid':
        out = md.compute_drid(t)
    elif name == 'rg_masses':
        out = md.compute_rg(t, masses=np.array([a.element.mass for a in t.topology.atoms]))
    elif name == 'cog':
        out = md.compute_center_of_geometry(t)
    elif name == 'asphericity':
        out = md.asphericity(t)
    elif name == 'acylindricity':
        out = md.acylindricity(t)
    elif name == 'shape_anisotropy':
        out = md.relative_shape_antisotropy(t)
    elif name == 'nematic_order':
        out = md.compute_nematic_order(t, indices='residues')
    elif name == 'directors':
        out = md.compute_directors(t, indices='residues')
    elif name == 'density':
        if w['L'] is None:
            raise ValueError('density needs a unit cell')
        out = md.density(t)
    elif name == 'dipole_moments':
        out = md.geometry.dipole_moments(t, np.linspace(-0.5, 0.5, n))
    elif name == 'angles_pbc':
        out = md.compute_angles(t, _pairs(n, fseed, 5, 3), periodic=True)
    elif name == 'dihedrals_pbc':
        out = md.compute_dihedrals(t, _pairs(n, fseed, 5, 4), periodic=True)
    elif name == 'displacements_pbc':
        out = md.compute_displacements(t, _pairs(n, fseed), periodic=True)
    elif name == 'distances_pbc_np':
        out = md.compute_distances(t, _pairs(n, fseed), periodic=True, opt=False)
    elif name == 'contacts_closest_heavy':
        out = md.compute_contacts(t, 'all', scheme='closest-heavy', periodic=w['L'] is not None)[0]
    elif name == 'contacts_sidechain':
        out = md.compute_contacts(t, 'all', scheme='sidechain', periodic=False)[0]
    elif name == 'closest_contact':
        half = max(1, n // 2)
        out = [np.array(md.geometry.distance.find_closest_contact(t, np.arange(half), np.arange(half, n), frame=k, periodic=False)[2]) for k in range(t.n_frames)]
    elif name == 'omega':
        out = md.compute_omega(t, periodic=False)[1]
    elif name == 'rg':
        out = md.compute_rg(t)
    elif name == 'com':
        out = md.compute_center_of_mass(t)
    elif name == 'gyration':
        out = md.compute_gyration_tensor(t)
    elif name == 'inertia':
        out = md.compute_inertia_tensor(t)
    elif name == 'principal_moments':
        out = md.principal_moments(t)
    elif name == 'rmsf':
        out = md.rmsf(t, ref, 0, parallel=True)
        return [np.asarray(out)]               # one aggregate, not per frame
    else:
        raise ValueError(name)
    if isinstance(out, np.ndarray):
        return [np.array(out[k]) for k in range(len(idx))]
    return list(out)


PBC_TUPLES = {'angles_pbc': (5, 3), 'dihedrals_pbc': (5, 4), 'displacements_pbc': (6, 2)}


def _mic_tie(w, f, frame, fseed):
    """an orthorhombic frame of a trajectory that also has triclinic frames, in which two atoms used by the function are exactly
    half a box length apart along an axis: two periodic images are equally near and the orthorhombic and the general kernel
    (chosen per trajectory, not per frame) settle the tie differently -- the known finding recorded for this situation"""
    if w['L'] is None or frame >= len(w['xyz']):
        return False
    A = np.asarray(w['A'])
    if not np.all(A[frame] == 90.0) or np.all(A == 90.0):
        return False
    k, width = PBC_TUPLES[f]
    x = w['xyz'][frame].astype(np.float64)
    L = np.asarray(w['L'][frame], dtype=np.float64)
    for tup in _pairs(x.shape[0], fseed, k, width):
        for a, b in zip(tup[:-1], tup[1:]):
            fr = np.abs((x[b] - x[a]) / L)
            if np.any(np.abs(fr - np.floor(fr) - 0.5) < 2e-6):
                return True
    return False


def canon(x):
    """hashable, NaN-safe canonical form of one frame's result"""
    if isinstance(x, (list, tuple)):
        return tuple(canon(y) for y in x)
    a = np.asarray(x)
    if a.dtype.kind in 'US' or a.dtype == object:
        return ('s', tuple(a.ravel().tolist()))
    return (a.dtype.str, a.shape, a.tobytes())


def close(a, b, scale):
    if isinstance(a, (list, tuple)):
        return len(a) == len(b) and all(close(x, y, scale) for x, y in zip(a, b))
    a, b = np.asarray(a), np.asarray(b)
    if a.shape != b.shape:
        return False
    if a.dtype.kind not in 'fc':
        return np.array_equal(a, b)
    tol = (1e-5 if a.dtype == np.float32 else 1e-11) * scale
    return np.allclose(a, b, atol=tol, rtol=tol, equal_nan=True)


def maxdiff(a, b):
    try:
        if isinstance(a, (list, tuple)):
            return max([maxdiff(x, y) for x, y in zip(a, b)] or [0.0])
        a, b = np.asarray(a), np.asarray(b)
        if a.shape != b.shape:
            return float('inf')
        if a.dtype.kind in 'fc':
            return float(np.nanmax(np.abs(a.astype(np.float64) - b.astype(np.float64)))) if a.size else 0.0
        return float(np.sum(a != b))
    except Exception:
        return float('nan')


def execute(check, case, workdir):
    import warnings
    warnings.simplefilter('ignore')
    import mdtraj as md
    res = Result()
    sim = _state['sim']
    w = make_traj(md, case)
    n = case['n_frames']
    scale = max(1.0, float(np.abs(w['xyz']).max()))
    base_cache = {}
    alone_cache = {}

    def conf(team, seed, prob):
        if sim:
            configure(team, seed, prob)

    def note_stats(team):
        if not sim:
            return ''
        s = stats()
        res.extra['yield_points'] = res.extra.get('yield_points', 0) + s[0]
        res.extra['switches'] = res.extra.get('switches', 0) + s[1]
        res.extra['omp_regions'] = res.extra.get('omp_regions', 0) + s[2]
        res.extra['omp_parallel_regions'] = res.extra.get('omp_parallel_regions', 0) + s[6]
        if s[6]:
            res.probe('parallel_region_entered')
            if team < n:
                res.probe('thread_handles_two_frames')
            if team > n:
                res.probe('team_larger_than_frames')
        if s[1]:
            res.probe('switch_inside_region')
        if s[3]:
            res.probe('barrier_reached')
        return ' y=%d sw=%d reg=%d tr=%x' % (s[0], s[1], s[6], s[4])

    def base(f, fseed):
        if f not in base_cache:
            conf(1, 1, 0.0)
            base_cache[f] = evaluate(md, f, w, None, fseed)
        return base_cache[f]

    def alone(f, i, fseed):
        if (f, i) not in alone_cache:
            conf(1, 1, 0.0)
            alone_cache[(f, i)] = evaluate(md, f, w, [i], fseed)[0]
        return alone_cache[(f, i)]

    def viol(f, clause, kind, detail, stepno):
        if kind.startswith('value') and f in PBC_TUPLES and 'frame' in detail and _mic_tie(w, f, int(detail['frame']), case['seed'] % 100000 + 17):
            kind += ',mic_tie'
        res.violate('%s|%s|%s|%s' % (check, f, clause, kind), stepno, dict(detail, function=f, n_frames=n, n_atoms=int(w['xyz'].shape[1])))

    if not sim:
        # real-libgomp cross-check mode: the thread count comes from the environment; log a digest of every function's
        # whole-trajectory result so that the driver can compare runs made under different OMP_NUM_THREADS
        import hashlib
        done = set()
        for stepno, op in enumerate(case['ops']):
            f = op['f']
            if f in done:
                continue
            done.add(f)
            res.steps += 1
            try:
                out = evaluate(md, f, w, None, case['seed'] % 100000 + 17)
            except Exception:
                res.probe('input_refused:' + f)       # as in the simulated mode: a function that refuses this input is left out
                continue
            h = hashlib.sha256(repr([canon(x) for x in out]).encode()).hexdigest()[:16]
            res.log.append('real %s %s' % (f, h))
            res.trace.append((f, 'real'))
            for i in range(n):
                if FUNCS[f] == 'exact':
                    a = evaluate(md, f, w, [i], case['seed'] % 100000 + 17)[0]
                    if canon(a) != canon(out[i]):
                        viol(f, 'context:alone', 'value_real_libgomp', {'frame': i, 'max_abs_diff': maxdiff(out[i], a)}, stepno)
                        break
        return res

    refused = set()
    for stepno, op in enumerate(case['ops']):
        res.steps += 1
        f = op['f']
        rule = FUNCS[f]
        fseed = case['seed'] % 100000 + 17
        if f in refused:
            continue
        if f not in base_cache:
            # a function that refuses this input outright (e.g. the 'ca' contact scheme on a residue whose CA was removed)
            # refuses it in the plain single-thread whole-trajectory call too: that is an input matter, not a schedule or
            # frame-context dependence, and the function is left out of this run
            try:
                base(f, fseed)
            except Exception as e:
                refused.add(f)
                res.probe('input_refused:%s:%s' % (f, type(e).__name__))
                res.log.append('%d %s refuses this input: %s' % (stepno, f, type(e).__name__))
                continue
        try:
            if op['op'] == 'threads':
                ref = base(f, fseed)
                cref = [canon(x) for x in ref]
                for sc in case['scheds']:
                    conf(sc['team'], sc['seed'], sc['prob'])
                    got = evaluate(md, f, w, None, fseed)
                    st = note_stats(sc['team'])
                    res.log.append('%d threads %s T=%d p=%g%s' % (stepno, f, sc['team'], sc['prob'], st))
                    res.trace.append((f, 'threads', sc['team'] if sc['team'] <= 16 else 'n+3', sc['prob'] > 0, sc['team'] < n))
                    cg = [canon(x) for x in got]
                    if cg != cref:
                        bad = [k for k in range(min(len(cg), len(cref))) if cg[k] != cref[k]]
                        viol(f, 'threads', 'bits', {'team': sc['team'], 'switch_prob': sc['prob'], 'sched_seed': sc['seed'],
                                                    'frames_differing': bad[:10],
                                                    'max_abs_diff': maxdiff([got[k] for k in bad[:3]], [ref[k] for k in bad[:3]])}, stepno)
                        break
                # and once more with the same schedule: run-to-run identity
                sc = case['scheds'][0]
                conf(sc['team'], sc['seed'], sc['prob'])
                again = evaluate(md, f, w, None, fseed)
                note_stats(sc['team'])
                if [canon(x) for x in again] != cref:
                    viol(f, 'threads', 'repeat_bits', {'team': sc['team']}, stepno)
                continue
            # ---- frame context
            if rule == 'threads_only':
                continue
            ctx = op['ctx']
            r = np.random.RandomState(op['seed'])
            if ctx == 'alone':
                sched = [[i] for i in range(n)]
                compare_to_base = True
            elif ctx == 'perm':
                sched = [list(r.permutation(n))]
                compare_to_base = False
            elif ctx == 'subset':
                k = max(1, int(r.randint(1, (4 if case.get('big') else n) + 1)))
                sched = [sorted(r.choice(n, size=k, replace=False).tolist())]
                compare_to_base = False
            elif ctx == 'repeat':
                sched = [list(r.choice(n, size=n + 2, replace=True))]
                compare_to_base = False
            else:
                cut = sorted(set(r.randint(1, n, size=2).tolist())) if n > 1 else []
                bounds = [0] + cut + [n]
                sched = [list(range(a, b)) for a, b in zip(bounds[:-1], bounds[1:]) if b > a]
                compare_to_base = False
            if ctx == 'alone':
                # the whole-trajectory result, frame by frame, against each frame computed alone
                whole = base(f, fseed)
                which = range(n)
                if case.get('big'):
                    which = sorted(set([0, 1, n // 2, n - 3, n - 2, n - 1] + [int(x) for x in r.randint(0, n, size=3)]))
                for i in which:
                    a = alone(f, i, fseed)
                    ok = (canon(whole[i]) == canon(a)) if rule == 'exact' else close(whole[i], a, scale)
                    if not ok:
                        viol(f, 'context:alone', 'value', {'frame': i, 'max_abs_diff': maxdiff(whole[i], a)}, stepno)
                        break
                res.log.append('%d context alone %s' % (stepno, f))
                res.trace.append((f, 'alone'))
                continue
            conf(op['team'], op['sseed'], op['prob'])
            failed = False
            for idx in sched:
                got = evaluate(md, f, w, [int(i) for i in idx], fseed)
                st = note_stats(op['team'])
                for pos, i in enumerate(idx):
                    a = alone(f, int(i), fseed)
                    ok = (canon(got[pos]) == canon(a)) if rule == 'exact' else close(got[pos], a, scale)
                    if not ok:
                        viol(f, 'context:' + ctx, 'value', {'frame': int(i), 'position_in_call': pos, 'call_frames': [int(x) for x in idx],
                                                           'team': op['team'], 'max_abs_diff': maxdiff(got[pos], a)}, stepno)
                        failed = True
                        break
                if failed:
                    break
                conf(op['team'], op['sseed'], op['prob'])
            res.log.append('%d context %s %s T=%d' % (stepno, ctx, f, op['team']))
            res.trace.append((f, ctx, op['team'], op['prob'] > 0))
        except Exception as e:
            res.log.append('%d %s %s raised %s: %s' % (stepno, op['op'], f, type(e).__name__, str(e)[:60]))
            # every function of the table runs cleanly on these fragments on the unchanged tree, so an exception
            # under some schedule or frame context is itself a schedule/context dependence
            viol(f, op['op'] if op['op'] == 'threads' else 'context:' + op.get('ctx', '?'), 'raises:%s' % type(e).__name__,
                 {'message': str(e)[:300]}, stepno)
    return res


def shrink_world(check, case):
    import copy
    for v in (2, 3, 4):
        if v < case['n_frames']:
            c = copy.deepcopy(case)
            c['n_frames'] = v
            yield c
    if case['n_res'] > 4:
        c = copy.deepcopy(case)
        c['n_res'] = 4
        yield c
    if case['noise']:
        c = copy.deepcopy(case)
        c['noise'] = 0.0
        yield c
    if case['cell']:
        c = copy.deepcopy(case)
        c['cell'] = False
        yield c
    if case.get('drop_backbone'):
        c = copy.deepcopy(case)
        del c['drop_backbone']
        yield c
    if case.get('degenerate'):
        c = copy.deepcopy(case)
        del c['degenerate']
        yield c
    if case.get('tumble'):
        c = copy.deepcopy(case)
        del c['tumble']
        yield c
    if len(case['scheds']) > 1:
        for k in range(len(case['scheds'])):
            c = copy.deepcopy(case)
            del c['scheds'][k]
            yield c
