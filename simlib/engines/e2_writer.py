"""E2 writer/crash-sim (C19): seeded write histories on streaming writers against an accepted-frames
model.  Faults: ragged writes (must be refused and leave no trace) and process kills at every
operation boundary (durable state = what a second descriptor reads at that instant)."""
import os
import shutil
import signal

import numpy as np

from ..core import Result
from .. import fmts

# format -> (optional fields that can make a file ragged, has flush, live-output durability judged)
CAPS = {
    'h5':        dict(cell='opt', time='opt', flush=True, live=True),
    'nc':        dict(cell='opt', time='opt', flush=True, live=True),
    'dcd':       dict(cell='opt', time=None, flush=False, live=True),
    'xtc':       dict(cell='opt', time='default', flush=True, live=True),
    'trr':       dict(cell='opt', time='default', flush=False, live=False),
    'mdcrd':     dict(cell='opt-ortho', time=None, flush=False, live=False),
    'xyz':       dict(cell=None, time=None, flush=False, live=False),
    'lammpstrj': dict(cell='req', time=None, flush=False, live=False),
    'gro':       dict(cell='opt', time='opt', flush=False, live=False),
    'pdb':       dict(cell='opt', time=None, flush=False, live=False),
    'dtr':       dict(cell='req', time='req', flush=False, live=False),
}
FORMAT_WEIGHTS = [('h5', 4), ('nc', 4), ('dcd', 4), ('xtc', 4), ('trr', 3), ('mdcrd', 2), ('xyz', 2), ('lammpstrj', 2),
                  ('gro', 2), ('pdb', 2), ('dtr', 2)]
ALL_FORMATS = [f for f, _ in FORMAT_WEIGHTS]
SQUEEZE_OK = ('h5', 'nc', 'dcd', 'mdcrd', 'xyz', 'lammpstrj')    # writers that accept one frame as a 2-d array (measured)
XTOL = 5e-4


EXTRA_FIELDS = ['velocities', 'kineticEnergy', 'potentialEnergy', 'temperature']     # what HDF5Reporter adds to every report


def ragged_kinds(fmt, with_cell, with_time, extras=None):
    c = CAPS[fmt]
    out = []
    if fmt == 'h5' and extras is not None:
        # the per-frame fields of the reporter protocol are part of the schema the first write fixes
        if extras:
            out.append('drop_extra')
        if len(extras) < len(EXTRA_FIELDS):
            out.append('add_extra')
    if fmt == 'pdb':
        # each write() is one MODEL with its own topology argument and the file holds a single CRYST1 record:
        # neither atom count nor cell presence is a per-write schema the file object could police.  What it does refuse is a
        # call whose coordinates do not fit the topology handed over with them -- at any point, also as the very first call
        return ['top_mismatch']
    out.append('natoms')
    if fmt == 'gro':
        # every gro frame carries a box line (zeros when no cell is given): cell presence is not a file schema
        return out
    if c['cell'] in ('opt', 'opt-ortho'):
        out.append('drop_cell' if with_cell else 'add_cell')
    if c['time'] == 'opt' and fmt != 'gro':
        out.append('drop_time' if with_time else 'add_time')
    return out


def compositions(n):
    """all ordered partitions of n, as lists, in a fixed order"""
    out = []
    for mask in range(1 << (n - 1)):
        parts = []
        cur = 1
        for b in range(n - 1):
            if mask >> b & 1:
                parts.append(cur)
                cur = 1
            else:
                cur += 1
        parts.append(cur)
        out.append(parts)
    return out


def _enum_table(tier):
    nmax = 5 if tier == 'quick' else 8
    table = []
    for fmt in ALL_FORMATS:
        cells = [True] if CAPS[fmt]['cell'] == 'req' else ([False] if CAPS[fmt]['cell'] is None else [True, False])
        for wc in cells:
            for n in range(1, nmax + 1):
                for parts in compositions(n):
                    table.append((fmt, wc, n, parts))
    return table


_ENUM = {}


def generate(check, rng, tier, run_index):
    if tier not in _ENUM:
        _ENUM[tier] = _enum_table(tier)
    table = _ENUM[tier]
    if run_index < len(table):
        fmt, wc, n, parts = table[run_index]
        with_time = CAPS[fmt]['time'] in ('opt', 'req', 'default')
        cell = None if not wc else ('ortho' if CAPS[fmt]['cell'] == 'opt-ortho' or run_index % 2 else ('tric' if run_index % 4 else 'mixed'))
        if fmt == 'mdcrd' and wc:
            cell = 'ortho'
        ops = [{'op': 'write', 'k': k} for k in parts]
        return {'check': check, 'fmt': fmt, 'n_atoms': 3 + (run_index % 9), 'cell': cell, 'with_time': with_time,
                'seed': rng.below(1 << 30), 'mode': 'flushed', 'enumerated': True, 'ops': ops}
    fmt = rng.weighted(FORMAT_WEIGHTS)
    c = CAPS[fmt]
    if c['cell'] == 'req':
        cell = rng.choice(['ortho', 'tric', 'mixed'])
    elif c['cell'] is None:
        cell = None
    elif c['cell'] == 'opt-ortho':
        cell = rng.choice([None, 'ortho'])
    else:
        cell = rng.choice([None, 'ortho', 'tric', 'mixed'])
    if c['time'] == 'req':
        with_time = True
    elif c['time'] is None:
        with_time = False
    else:
        with_time = rng.chance(0.65)
    n_atoms = rng.choice([2, 3, 8, 9, 10, 11, 22])
    if fmt in ('pdb', 'gro'):
        n_atoms = max(3, n_atoms)
    mode = rng.weighted([('flushed', 5), ('raw', 3), ('faultfree', 2)])
    nops = rng.randint(2, 12)
    extras = None
    if fmt == 'h5' and rng.chance(0.5):
        extras = [f for f in EXTRA_FIELDS if rng.chance(0.5)]       # possibly none of them: then only 'add_extra' can be ragged
    rag = ragged_kinds(fmt, cell is not None, with_time, extras)
    ops = []
    n_ragged = 0
    for j in range(nops):
        kinds = [('write', 10), ('flush', 2 if c['flush'] and mode == 'raw' else 0),
                 ('reopen', 1 if fmt == 'h5' else 0),
                 ('ragged', 3 if (mode != 'faultfree' and rag and (j > 0 or fmt == 'pdb') and n_ragged < 2) else 0)]
        k = rng.weighted(kinds)
        if k == 'write':
            # mostly a few frames per call; now and then a long stretch (a buffered reporter, a whole chunk of another file)
            o = {'op': 'write', 'k': rng.weighted([(1, 50), (2, 30), (3, 20), (rng.randint(4, 7), 10), (rng.randint(20, 150), 3)])}
            if o['k'] == 1 and fmt in SQUEEZE_OK and rng.chance(0.4):
                o['squeeze'] = True       # a single frame handed over as 2-d coordinates / scalar time ("dimension deficient by one")
            elif rng.chance(0.25):
                o['noncontig'] = True     # the caller's arrays are float64 and not C-contiguous (a strided view of a bigger array)
            ops.append(o)
            if rng.chance(0.06):
                ops.append({'op': 'write', 'k': 0})      # a write call with zero frames (an empty chunk at the end of a loop)
        elif k == 'ragged':
            n_ragged += 1
            ops.append({'op': 'ragged', 'kind': rng.choice(rag), 'k': rng.randint(1, 2), 'delta': rng.choice([-1, 1]),
                        'retry': rng.chance(0.3)})       # the caller tries the very same call once more
        else:
            ops.append({'op': k})
    if not any(o['op'] == 'write' for o in ops):
        ops.insert(0, {'op': 'write', 'k': 1})
    if rng.chance(0.04):
        ops.insert(0, {'op': 'write', 'k': 0})         # the very first call carries no frames (the loop's first chunk was empty)
    case = {'check': check, 'fmt': fmt, 'n_atoms': n_atoms, 'cell': cell, 'with_time': with_time,
            'seed': rng.below(1 << 30), 'mode': mode, 'ops': ops}
    if extras is not None:
        case['extras'] = extras
    if rng.chance(0.2):
        # the output path is not fresh: an earlier, longer run was saved under the same name (or something else lies there);
        # writers open with force_overwrite=True by default and must leave nothing of it
        case['preexisting'] = rng.choice(['longer', 'longer', 'junk'])
    if fmt == 'nc' and rng.chance(0.4):
        case['nc_backend'] = 'scipy'
    alias = {'nc': ['.nc', '.netcdf', '.ncdf'], 'mdcrd': ['.mdcrd', '.crd'], 'h5': ['.h5', '.hdf5'], 'xyz': ['.xyz', '.xyz.gz'], 'pdb': ['.pdb', '.pdb.gz']}
    if fmt in alias and rng.chance(0.4):
        case['ext'] = rng.choice(alias[fmt])
    if rng.chance(0.4):
        case['origin'] = rng.choice([[-3.0, -2.0, -5.0], [40.0, -20.0, 7.0], [-0.4, 0.0, -1.2]])
    if CAPS[fmt]['live'] and rng.chance(0.04 if tier == 'thorough' else 0.01):
        case['real_kill_at'] = rng.below(len(ops))      # stub fidelity: the same history in a child that SIGKILLs itself here
    return case


# ------------------------------------------------------------------ writer adapter

class Writer(object):
    def __init__(self, md, fmt, path, top, n_atoms):
        self.md = md
        self.fmt = fmt
        self.path = path
        self.top = top
        self.h = None
        self.n_models = 0
        self.open('w')

    def open(self, mode):
        md = self.md
        kw = {}
        if self.fmt == 'mdcrd':
            kw['n_atoms'] = self.top.n_atoms
        self.h = md.open(self.path, mode, **kw) if self.fmt not in ('h5',) else \
            md.formats.HDF5TrajectoryFile(self.path, mode)
        if self.fmt == 'h5' and mode == 'w':
            self.h.topology = self.top     # what HDF5Reporter does before the first report

    def write(self, xyz_nm, time, L_nm, A, top=None, extras=None):
        """xyz (k, n, 3) nm; time (k,) or None; L (k,3) nm or None; A (k,3) or None; extras: further per-frame fields (h5)"""
        fmt, h = self.fmt, self.h
        top = top or self.top
        k = len(xyz_nm)
        if fmt == 'h5':
            h.write(xyz_nm, time=time, cell_lengths=L_nm, cell_angles=A, **(extras or {}))
        elif fmt == 'nc':
            h.write(xyz_nm * 10, time=time, cell_lengths=None if L_nm is None else L_nm * 10, cell_angles=A)
        elif fmt == 'dcd':
            h.write(xyz_nm * 10, cell_lengths=None if L_nm is None else L_nm * 10, cell_angles=A)
        elif fmt in ('xtc', 'trr'):
            box = None
            if L_nm is not None:
                from mdtraj.utils import lengths_and_angles_to_box_vectors
                a, b, c = lengths_and_angles_to_box_vectors(L_nm[:, 0], L_nm[:, 1], L_nm[:, 2], A[:, 0], A[:, 1], A[:, 2])
                box = np.swapaxes(np.dstack((a, b, c)), 1, 2).astype(np.float32)
            h.write(xyz_nm, time=time, box=box)
        elif fmt == 'mdcrd':
            h.write(xyz_nm * 10, cell_lengths=None if L_nm is None else L_nm * 10)
        elif fmt == 'xyz':
            h.write(xyz_nm * 10, types=[a.name for a in top.atoms])
        elif fmt == 'lammpstrj':
            h.write(xyz_nm * 10, cell_lengths=None if L_nm is None else L_nm * 10, cell_angles=A)
        elif fmt == 'dtr':
            h.write(xyz_nm * 10, cell_lengths=None if L_nm is None else L_nm * 10, cell_angles=A, times=time)
        elif fmt == 'gro':
            uv = None
            if L_nm is not None:
                from mdtraj.utils import lengths_and_angles_to_box_vectors
                a, b, c = lengths_and_angles_to_box_vectors(L_nm[:, 0], L_nm[:, 1], L_nm[:, 2], A[:, 0], A[:, 1], A[:, 2])
                uv = np.swapaxes(np.dstack((a, b, c)), 1, 2)
            h.write(xyz_nm, top, time=time, unitcell_vectors=uv)
        elif fmt == 'pdb':
            for i in range(k):
                if L_nm is not None:
                    h.write(xyz_nm[i] * 10, top, modelIndex=self.n_models, unitcell_lengths=L_nm[i] * 10,
                            unitcell_angles=A[i])
                else:
                    h.write(xyz_nm[i] * 10, top, modelIndex=self.n_models)
                self.n_models += 1
        else:
            raise ValueError(fmt)

    def flush(self):
        self.h.flush()

    def close(self):
        if self.h is not None:
            self.h.close()
            self.h = None


def _preexisting(md, case, path, top, n_atoms, src, with_cell, with_time):
    """put the earlier content at the writer's path before the writer opens it"""
    kind = case.get('preexisting')
    if not kind:
        return
    fmt = case['fmt']
    if kind == 'junk' and fmt != 'dtr':
        with open(path, 'wb') as f:
            f.write(b'not a trajectory \x00\x01\x02 ' * 700)
        return
    n = len(src['xyz'])
    w0 = Writer(md, fmt, path, top, n_atoms)
    try:
        # other content than the run's own frames (everything shifted by 5 nm) and at least two frames more than the history can write
        x, t_, l_, a_ = _chunk(src, list(range(n)), with_cell, with_time)
        w0.write(x + np.float32(5.0), t_, l_, a_)
    finally:
        w0.close()


def snapshot(path, dest):
    """what a second descriptor reads right now = what survives SIGKILL of the writer"""
    if os.path.isdir(path):
        if os.path.exists(dest):
            shutil.rmtree(dest)
        shutil.copytree(path, dest)
        return True
    if not os.path.exists(path):
        return False
    shutil.copyfile(path, dest)
    return True


def load_file(md, fmt, path, top):
    if fmt in ('h5', 'pdb', 'gro'):
        return md.load(path)
    return md.load(path, top=top)


def frames_match(t, src, ids, with_cell, with_time, fmt):
    """loaded trajectory t vs source frames ids (tolerance; identity by tag)"""
    if t.n_frames != len(ids):
        return 'n_frames', {'expected': len(ids), 'got': int(t.n_frames)}
    if len(ids) == 0:
        return None
    ref = src['xyz'][ids]
    if t.xyz.shape != ref.shape:
        return 'shape', {'expected': list(ref.shape), 'got': list(t.xyz.shape)}
    if not np.allclose(t.xyz, ref, atol=XTOL, rtol=0):
        got = [int(x) for x in np.round((t.xyz[:, 0, 0].astype(np.float64) - src.get('ox', 0.0)) / 0.1 - 1.0)]
        if got != list(ids):
            return 'frames', {'expected_ids': list(ids), 'got_ids': got}
        return 'xyz', {'max_abs_err': float(np.nanmax(np.abs(t.xyz - ref)))}
    if with_cell:
        if t.unitcell_lengths is None:
            return 'cell_lost', {}
        if not np.allclose(t.unitcell_lengths, src['L'][ids], atol=2e-3, rtol=0):
            return 'cell', {'expected': src['L'][ids].tolist()[:3], 'got': t.unitcell_lengths.tolist()[:3]}
        if not np.allclose(t.unitcell_angles, src['A'][ids], atol=2e-2, rtol=0):
            return 'cell_angles', {'expected': src['A'][ids].tolist()[:3], 'got': t.unitcell_angles.tolist()[:3]}
    else:
        if t.unitcell_lengths is not None and fmt not in ('lammpstrj', 'dtr'):
            return 'cell_appeared', {'got': t.unitcell_lengths.tolist()[:2]}
    if with_time and CAPS[fmt]['time'] in ('opt', 'req', 'default'):
        if not np.allclose(np.asarray(t.time, dtype=np.float64), src['time'][ids], atol=2e-3, rtol=0):
            return 'time', {'expected': src['time'][ids].tolist()[:12], 'got': np.asarray(t.time).tolist()[:12]}
    return None


def same_load(a, b):
    """incremental vs one-shot: bit-identical loads"""
    if a.n_frames != b.n_frames:
        return 'n_frames', {'incremental': int(a.n_frames), 'one_shot': int(b.n_frames)}
    if not np.array_equal(a.xyz, b.xyz):
        return 'xyz', {'max_abs_diff': float(np.nanmax(np.abs(a.xyz - b.xyz)))}
    if not np.array_equal(np.asarray(a.time), np.asarray(b.time)):
        return 'time', {'incremental': np.asarray(a.time).tolist()[:12], 'one_shot': np.asarray(b.time).tolist()[:12]}
    for nm in ('unitcell_lengths', 'unitcell_angles'):
        x, y = getattr(a, nm), getattr(b, nm)
        if (x is None) != (y is None):
            return 'cell_presence', {'field': nm, 'incremental_none': x is None, 'one_shot_none': y is None}
        if x is not None and not np.array_equal(x, y):
            return 'cell', {'field': nm, 'incremental': x.tolist()[:3], 'one_shot': y.tolist()[:3]}
    return None


# ------------------------------------------------------------------ execute

def _extras(case, src, ids, squeeze=False, names=None):
    """the reporter's further per-frame fields for frames ids (h5 only): velocities (k, n, 3), energies and temperature (k,)"""
    names = case.get('extras') if names is None else names
    if not names:
        return None
    out = {}
    idv = np.asarray(ids, dtype=np.float64)
    for nm in names:
        if nm == 'velocities':
            v = (src['xyz'][ids] * 0.5 + 1.0).astype(np.float32)
        else:
            v = (idv * {'kineticEnergy': 1.5, 'potentialEnergy': -2.5, 'temperature': 0.25}[nm] + 300.0).astype(np.float32)
        out[nm] = v if not squeeze else (v[0] if nm == 'velocities' else float(v[0]))
    return out


def _noncontig(x, t_, l_, a_):
    """the same values as float64, non C-contiguous views (every second row of a bigger array / Fortran order)"""
    big = np.zeros((2 * len(x),) + x.shape[1:], dtype=np.float64)
    big[::2] = x
    xv = big[::2]
    tv = None if t_ is None else np.repeat(np.asarray(t_, dtype=np.float64), 2)[::2]
    # the cell keeps its float32 type: lengths/angles are converted to box vectors by the writers, and doing that
    # arithmetic in another precision moves the stored value by one ulp -- a property of the input type, not of how
    # the frames were split over write calls, which is all this check compares
    def strided(v):
        if v is None:
            return None
        v = np.asarray(v)
        b = np.zeros((len(v), 6), dtype=v.dtype)
        b[:, ::2] = v
        return b[:, ::2]
    return xv, tv, strided(l_), strided(a_)


def _chunk(src, ids, with_cell, with_time):
    xyz = src['xyz'][ids]
    tm = src['time'][ids] if with_time else None
    L = src['L'][ids] if with_cell else None
    A = src['A'][ids] if with_cell else None
    return xyz, tm, L, A


def execute(check, case, workdir):
    import sys
    hide = case.get('nc_backend') == 'scipy'
    saved = sys.modules.get('netCDF4', 'absent')
    if hide:
        sys.modules['netCDF4'] = None
    try:
        res = _execute(check, case, workdir)
        if hide:
            res.probe('netcdf_scipy_backend')
        return res
    finally:
        if hide:
            if saved == 'absent':
                sys.modules.pop('netCDF4', None)
            else:
                sys.modules['netCDF4'] = saved


def _execute(check, case, workdir):
    import warnings
    warnings.simplefilter('ignore')
    import mdtraj as md
    res = Result()
    fmt = case['fmt']
    F = fmts.FORMATS[fmt]
    caps = CAPS[fmt]
    n_atoms = case['n_atoms']
    with_cell = case['cell'] is not None
    with_time = case['with_time']
    total = sum(o.get('k', 0) for o in case['ops']) + 2
    cellkind = case['cell'] or 'tric'
    origin = tuple(case.get('origin', (0.0, 0.0, 0.0)))
    xyz, tm, L, A = fmts.tagged_arrays(total, n_atoms + 1, cellkind, case['seed'], origin)
    if caps['cell'] == 'opt-ortho' or fmt == 'mdcrd':
        A = np.full_like(A, 90.0)
    if fmt == 'pdb':
        # a PDB file holds one CRYST1 record: the cell cannot vary per frame (carrier limit, not judged here)
        L = np.repeat(L[:1], len(L), axis=0)
        A = np.repeat(A[:1], len(A), axis=0)
    src = {'xyz': xyz[:, :n_atoms], 'xyz_plus': xyz, 'time': tm.astype(np.float64), 'L': L, 'A': A, 'ox': origin[0]}
    top = fmts.make_topology(n_atoms)
    top_plus = fmts.make_topology(n_atoms + 1)
    top_minus = fmts.make_topology(n_atoms - 1) if n_atoms > 1 else None
    EXT = case.get('ext', F['ext'])
    path = os.path.join(workdir, 'out' + EXT)
    mode = case['mode']
    auto_flush = caps['flush'] and mode in ('flushed', 'faultfree')
    sig_schema = '%s%s' % ('cell' if with_cell else 'nocell', ',time' if with_time else ',notime')

    def viol(opname, kind, detail, stepno, extra=''):
        d = dict(detail)
        d.update({'format': fmt, 'schema': sig_schema, 'mode': mode})
        res.violate('%s|%s|%s|%s|%s%s' % (check, fmt, opname, kind, sig_schema, extra), stepno, d)

    _preexisting(md, case, path, top, n_atoms, src, with_cell, with_time)
    if case.get('preexisting'):
        res.probe('writer_opened_on_existing_' + case['preexisting'])
    w = Writer(md, fmt, path, top, n_atoms)
    accepted = []        # source frame ids accepted so far
    flushed_upto = 0     # frames guaranteed durable (flush returned after them)
    cursor = 0
    aborted = False
    n_boundaries = 0

    def judge_crash(stepno, label):
        """simulated process kill at this boundary"""
        nonlocal n_boundaries
        n_boundaries += 1
        img = os.path.join(workdir, 'img' + EXT)
        if not snapshot(path, img):
            res.probe('crash_before_file_exists')
            return
        res.fault('process_kill_snapshot')
        pending = len(accepted) - flushed_upto
        if pending > 0:
            res.probe('crash_with_unflushed_tail')
        if not caps['live']:
            res.probe('crash_image_tallied_only')
            _rm(img)
            return
        Fd = flushed_upto
        if Fd == 0:
            _rm(img)
            return
        ids = accepted[:Fd]
        err = None
        t = None
        try:
            t = load_file(md, fmt, img, top)
        except Exception as e:
            err = e
        if pending == 0:
            if t is None:
                viol('crash', 'unloadable_after_flush', {'boundary': label, 'frames_flushed': Fd,
                                                          'error': '%s: %s' % (type(err).__name__, str(err)[:200])}, stepno)
            else:
                bad = frames_match(t, src, ids, with_cell, with_time, fmt)
                if bad is not None:
                    viol('crash', 'lost_after_flush:' + bad[0], dict(bad[1], boundary=label, frames_flushed=Fd), stepno)
        else:
            ok = False
            if t is not None and t.n_frames >= Fd:
                ok = frames_match(t[:Fd], src, ids, with_cell, with_time, fmt) is None
            if not ok:
                # the flushed prefix may also be recovered through the file object
                try:
                    kw = fmts.open_kwargs(fmt, n_atoms)
                    with md.open(img, **kw) as fh:
                        tt = fh.read_as_traj(top, n_frames=Fd) if fmt != 'h5' else fh.read_as_traj(n_frames=Fd)
                    ok = frames_match(tt, src, ids, with_cell, with_time, fmt) is None
                except Exception:
                    ok = False
            if not ok:
                viol('crash', 'flushed_prefix_lost', {'boundary': label, 'frames_flushed': Fd, 'pending': pending}, stepno)
        _rm(img)

    def _rm(p):
        if os.path.isdir(p):
            shutil.rmtree(p, ignore_errors=True)
        elif os.path.exists(p):
            os.unlink(p)

    try:
        for stepno, op in enumerate(case['ops']):
            res.steps += 1
            kind = op['op']
            if aborted:
                break
            if kind == 'write':
                k = op['k']
                ids = list(range(cursor, cursor + k))
                x, t_, l_, a_ = _chunk(src, ids, with_cell, with_time)
                if op.get('squeeze') and k == 1 and fmt in SQUEEZE_OK:
                    x, t_, l_, a_ = x[0], (None if t_ is None else float(t_[0])), (None if l_ is None else l_[0]), (None if a_ is None else a_[0])
                    res.probe('single_frame_written_dimension_deficient')
                elif op.get('noncontig') and k > 0:
                    x, t_, l_, a_ = _noncontig(x, t_, l_, a_)
                    res.probe('noncontiguous_float64_input')
                if k == 0:
                    res.probe('zero_frame_write')
                ex = _extras(case, src, ids, squeeze=(op.get('squeeze') and k == 1 and fmt in SQUEEZE_OK))
                if ex:
                    res.probe('reporter_fields_written')
                try:
                    w.write(x, t_, l_, a_, extras=ex)
                except Exception as e:
                    res.log.append('%d write(%d) raised %s' % (stepno, k, type(e).__name__))
                    viol('write', 'raises:%s' % type(e).__name__, {'message': str(e)[:300], 'k': k, 'accepted_before': len(accepted)}, stepno)
                    aborted = True
                    break
                cursor += k
                accepted.extend(ids)
                if auto_flush:
                    w.flush()
                    flushed_upto = len(accepted)
                elif not caps['flush'] and fmt == 'dcd':
                    flushed_upto = len(accepted)   # DCD: judged after each write (no flush exists; reporter protocol)
                res.log.append('%d write(%d) -> %d frames' % (stepno, k, len(accepted)))
                res.trace.append((fmt, 'write', min(k, 3), sig_schema, mode))
            elif kind == 'flush':
                if not caps['flush'] or not accepted:
                    continue        # flushing a writer that has written nothing is outside the property
                w.flush()
                flushed_upto = len(accepted)
                res.log.append('%d flush' % stepno)
                res.trace.append((fmt, 'flush'))
            elif kind == 'reopen':
                if fmt != 'h5':
                    continue
                w.close()
                w.open('a')
                flushed_upto = len(accepted)
                res.probe('h5_reopen_append')
                res.log.append('%d reopen-append' % stepno)
                res.trace.append((fmt, 'reopen'))
            elif kind == 'ragged':
                rk = op['kind']
                if not accepted and rk != 'top_mismatch':
                    continue        # no schema yet: nothing can be ragged
                if rk not in ragged_kinds(fmt, with_cell, with_time, case.get('extras')):
                    continue
                k = op['k']
                ids = list(range(cursor, cursor + k))
                x, t_, l_, a_ = _chunk(src, ids, with_cell, with_time)
                rtop = None
                if rk == 'natoms':
                    if op.get('delta', 1) < 0 and n_atoms > 1:
                        x = x[:, :n_atoms - 1]
                        rtop = top_minus
                    else:
                        x = src['xyz_plus'][ids]
                        rtop = top_plus
                elif rk == 'add_cell':
                    l_, a_ = src['L'][ids], src['A'][ids]
                elif rk == 'drop_cell':
                    l_, a_ = None, None
                elif rk == 'add_time':
                    t_ = src['time'][ids]
                elif rk == 'drop_time':
                    t_ = None
                elif rk == 'top_mismatch':
                    x = x[:, :n_atoms - 1]
                    rtop = top
                ex = _extras(case, src, ids)
                if rk == 'drop_extra':
                    ex = _extras(case, src, ids, names=case['extras'][1:])
                elif rk == 'add_extra':
                    ex = _extras(case, src, ids, names=case['extras'] + [f for f in EXTRA_FIELDS if f not in case['extras']][:1])
                res.fault('ragged:' + rk)
                refused = False
                try:
                    w.write(x, t_, l_, a_, top=rtop, extras=ex)
                except Exception as e:
                    refused = True
                    res.log.append('%d ragged(%s) refused with %s' % (stepno, rk, type(e).__name__))
                if refused and op.get('retry'):
                    res.fault('ragged_retry')
                    try:
                        w.write(x, t_, l_, a_, top=rtop, extras=ex)
                        refused = False
                        res.log.append('%d ragged(%s) accepted on the second attempt' % (stepno, rk))
                    except Exception:
                        pass
                cursor += k      # the refused frames are never offered again: they must appear nowhere
                res.trace.append((fmt, 'ragged', rk, refused))
                if not refused:
                    res.log.append('%d ragged(%s) ACCEPTED' % (stepno, rk))
                    viol('ragged', 'ragged_accepted', {'kind': rk, 'accepted_before': len(accepted)}, stepno, ',' + rk)
                    aborted = True
                    break
            judge_crash(stepno, 'after_%s_%d' % (kind, stepno))
            if case.get('real_kill_at') == stepno and not aborted:
                _real_kill_crosscheck(res, check, case, workdir, md, src, top, stepno, accepted, flushed_upto,
                                      with_cell, with_time, viol)
    finally:
        try:
            w.close()
        except Exception as e:
            res.log.append('close raised %s' % type(e).__name__)
            viol('close', 'raises:%s' % type(e).__name__, {'message': str(e)[:300]}, len(case['ops']))
            aborted = True

    tag = ',after_refusal' if any(k.startswith('ragged:') for k in res.faults) else ''
    if aborted and any(v['signature'].split('|')[3] == 'ragged_accepted' for v in res.violations):
        return res
    if not accepted:
        return res
    # ---- after close: exactly the accepted frames, and the same as a one-shot file
    final_step = len(case['ops'])
    try:
        t = load_file(md, fmt, path, top)
    except Exception as e:
        viol('final', 'unloadable', {'error': '%s: %s' % (type(e).__name__, str(e)[:300]), 'accepted': len(accepted)}, final_step, tag)
        return res
    bad = frames_match(t, src, accepted, with_cell, with_time, fmt)
    if bad is not None:
        viol('final', bad[0], dict(bad[1], accepted=len(accepted)), final_step, tag)
        return res
    sib = os.path.join(workdir, 'oneshot' + EXT)
    w2 = Writer(md, fmt, sib, top, n_atoms)
    try:
        x, t_, l_, a_ = _chunk(src, accepted, with_cell, with_time)
        w2.write(x, t_, l_, a_, extras=_extras(case, src, accepted))
    finally:
        w2.close()
    if case.get('extras') is not None and fmt == 'h5':
        # the reporter fields: as many entries as frames, the values of the accepted frames, nothing for fields never written
        want = _extras(case, src, accepted) or {}
        with md.formats.HDF5TrajectoryFile(path) as fh:
            got = fh.read()
        for nm in EXTRA_FIELDS:
            g = getattr(got, nm)
            if nm not in want:
                if g is not None and len(g):
                    viol('final', 'field_appeared:' + nm, {'entries': int(len(g)), 'accepted': len(accepted)}, final_step, tag)
                    return res
            elif g is None or len(g) != len(accepted) or not np.allclose(np.asarray(g, dtype=np.float64), want[nm], rtol=1e-6, atol=1e-6):
                viol('final', 'field_differs:' + nm, {'entries': None if g is None else int(len(g)), 'accepted': len(accepted)}, final_step, tag)
                return res
    s = load_file(md, fmt, sib, top)
    bad = same_load(t, s)
    nwrites = sum(1 for o in case['ops'] if o['op'] == 'write')
    if nwrites > 1:
        res.probe('multi_call_vs_one_shot_compared')
    if bad is not None:
        viol('final', 'differs_from_one_shot:' + bad[0], dict(bad[1], accepted=len(accepted), writes=nwrites), final_step, tag)
    res.log.append('final: %d frames ok' % len(accepted))
    return res


def _real_kill_crosscheck(res, check, case, workdir, md, src, top, stepno, accepted, flushed_upto, with_cell, with_time, viol):
    """stub fidelity: replay the same history in a child that SIGKILLs itself at this boundary; the remains
    must load like the snapshot did (same oracle: the flushed prefix is there)."""
    fmt = case['fmt']
    F = fmts.FORMATS[fmt]
    sub = os.path.join(workdir, 'kill')
    os.makedirs(sub, exist_ok=True)
    pid = os.fork()
    if pid == 0:
        try:
            c2 = dict(case)
            c2['ops'] = case['ops'][:stepno + 1]
            c2.pop('real_kill_at', None)
            c2['_child_kill'] = True
            _child_history(c2, sub)
        finally:
            os.kill(os.getpid(), signal.SIGKILL)
    _, status = os.waitpid(pid, 0)
    res.fault('real_sigkill_child')
    p = os.path.join(sub, 'out' + case.get('ext', F['ext']))
    if flushed_upto == 0 or not os.path.exists(p):
        return
    pending = len(accepted) - flushed_upto
    try:
        t = load_file(md, fmt, p, top)
        if pending == 0:
            bad = frames_match(t, src, accepted[:flushed_upto], with_cell, with_time, fmt)
        else:
            bad = None if t.n_frames >= flushed_upto and frames_match(t[:flushed_upto], src, accepted[:flushed_upto], with_cell, with_time, fmt) is None else ('prefix', {})
    except Exception as e:
        bad = ('unloadable', {'error': str(e)[:200]}) if pending == 0 else None
    if bad is not None:
        viol('crash_real', 'lost_after_flush:' + bad[0], dict(bad[1], frames_flushed=flushed_upto), stepno)


def _child_history(case, workdir):
    """run the write history without any checking (used in the SIGKILLed child)"""
    import mdtraj as md
    fmt = case['fmt']
    F = fmts.FORMATS[fmt]
    caps = CAPS[fmt]
    n_atoms = case['n_atoms']
    with_cell = case['cell'] is not None
    with_time = case['with_time']
    total = sum(o.get('k', 0) for o in case['ops']) + 2
    xyz, tm, L, A = fmts.tagged_arrays(total, n_atoms + 1, case['cell'] or 'tric', case['seed'], tuple(case.get('origin', (0.0, 0.0, 0.0))))
    if caps['cell'] == 'opt-ortho' or fmt == 'mdcrd':
        A = np.full_like(A, 90.0)
    src = {'xyz': xyz[:, :n_atoms], 'xyz_plus': xyz, 'time': tm.astype(np.float64), 'L': L, 'A': A}
    top = fmts.make_topology(n_atoms)
    _preexisting(md, case, os.path.join(workdir, 'out' + case.get('ext', F['ext'])), top, n_atoms, src, with_cell, with_time)
    w = Writer(md, fmt, os.path.join(workdir, 'out' + case.get('ext', F['ext'])), top, n_atoms)
    auto_flush = caps['flush'] and case['mode'] in ('flushed', 'faultfree')
    cursor = 0
    n_acc = 0
    for op in case['ops']:
        if op['op'] == 'write':
            ids = list(range(cursor, cursor + op['k']))
            x, t_, l_, a_ = _chunk(src, ids, with_cell, with_time)
            if op.get('squeeze') and op['k'] == 1 and fmt in SQUEEZE_OK:
                x, t_, l_, a_ = x[0], (None if t_ is None else float(t_[0])), (None if l_ is None else l_[0]), (None if a_ is None else a_[0])
            elif op.get('noncontig') and op['k'] > 0:
                x, t_, l_, a_ = _noncontig(x, t_, l_, a_)
            w.write(x, t_, l_, a_, extras=_extras(case, src, ids, squeeze=(op.get('squeeze') and op['k'] == 1 and fmt in SQUEEZE_OK)))
            cursor += op['k']
            n_acc += op['k']
            if auto_flush:
                w.flush()
        elif op['op'] == 'flush' and caps['flush']:
            if n_acc:           # as in the judged history: a flush before the first write is not performed
                w.flush()
        elif op['op'] == 'reopen' and fmt == 'h5':
            w.close()
            w.open('a')
        elif op['op'] == 'ragged':
            if n_acc == 0 and op.get('kind') != 'top_mismatch':
                continue
            cursor += op['k']     # the child skips the faulty write itself; positions stay aligned


def shrink_world(check, case):
    import copy
    for v in (2, 3):
        if v < case['n_atoms'] and not (case['fmt'] in ('pdb', 'gro') and v < 3):
            c = copy.deepcopy(case)
            c['n_atoms'] = v
            yield c
    if case['cell'] == 'mixed':
        c = copy.deepcopy(case)
        c['cell'] = 'tric'
        yield c
    if case['cell'] in ('tric', 'mixed') and CAPS[case['fmt']]['cell'] != 'req':
        c = copy.deepcopy(case)
        c['cell'] = 'ortho'
        yield c
    if case['mode'] != 'flushed':
        c = copy.deepcopy(case)
        c['mode'] = 'flushed'
        yield c
    for i, o in enumerate(case['ops']):
        if o.get('k', 1) > 1:
            c = copy.deepcopy(case)
            c['ops'][i]['k'] = 1
            yield c
