"""E4a object-history-sim: a pool of live Trajectory objects, each paired with a numpy reference model,
driven through seeded operation histories.  Decides C03 (indexing/join/stack semantics, aliasing, cache
coherence, non-mutation) and C17 (unit-cell completeness through histories; conversion clause on every
cell a history reaches)."""
import os

import numpy as np

from ..core import Result

POOL_MAX = 6
SAVE_FORMATS = ['h5', 'xtc', 'dcd', 'nc', 'pdb', 'xyz', 'gro', 'trr', 'lammpstrj', 'mdcrd']
CELL_FORMATS = ['h5', 'nc', 'dcd', 'xtc', 'trr', 'lammpstrj', 'gro', 'pdb', 'dtr', 'mdcrd', 'mdcrd', 'rst7', 'ncrst', 'rst7']
ANALYSES = ['distances', 'rg', 'com', 'sasa', 'dssp', 'angles', 'dihedrals', 'neighbors', 'contacts', 'displacements',
            'inertia', 'rmsd_ai',
            # second batch: the rest of the public per-trajectory observers (none of them documents an in-place change)
            'drid', 'phi_psi', 'chi_omega', 'kabsch_sander', 'baker_hubbard', 'wernet_nilsson', 'gyration', 'principal_moments',
            'shape', 'cog', 'density', 'dipole', 'nematic', 'neighborlist', 'contacts_ca', 'closest_contact', 'volumes',
            'distances_np_pbc', 'angles_pbc', 'dihedrals_pbc', 'smooth', 'image_molecules', 'whole', 'rg_masses', 'copy_ops']
CELL_KINDS = ['cubic', 'ortho', 'mono', 'hex60', 'hex120', 'truncoct', 'rhombdod', 'tric', 'tric', 'neardeg', 'rhombo60', 'obtuse']


# ------------------------------------------------------------------ generation

def _gen_key(rng):
    k = rng.weighted([('int', 3), ('negint', 2), ('slice', 4), ('rslice', 2), ('stepslice', 2), ('array', 3), ('mask', 2),
                      ('list', 2), ('negarray', 2), ('negslice', 2), ('npint', 3), ('ellipsis', 1), ('range', 1)])
    if k in ('int', 'negint'):
        return {'k': k, 'v': rng.below(1 << 12)}
    if k == 'npint':
        return {'k': k, 'v': rng.below(1 << 12), 'as': rng.choice(['int64', 'int32', 'uint8', 'neg64', '0d'])}
    if k == 'ellipsis':
        return {'k': k}
    if k == 'range':
        return {'k': k, 'a': rng.below(1 << 12), 'b': rng.below(1 << 12), 's': rng.choice([1, 2])}
    if k in ('slice', 'stepslice', 'rslice'):
        return {'k': k, 'a': rng.below(1 << 12), 'b': rng.below(1 << 12), 's': rng.choice([1, 2, 3]) if k != 'slice' else 1,
                'open': rng.choice(['', 'a', 'b', 'ab'])}
    if k in ('array', 'list', 'negarray'):
        return {'k': k, 'v': [rng.below(1 << 12) for _ in range(rng.randint(1, 6))]}
    if k == 'negslice':
        return {'k': k, 'a': rng.below(1 << 12), 'b': rng.below(1 << 12), 's': rng.choice([1, 1, 2])}
    return {'k': k, 'bits': rng.below(1 << 16) | 1}


def _gen_cell(rng):
    return {'kind': rng.choice(CELL_KINDS), 'seed': rng.below(1 << 20), 'vary': rng.chance(0.7)}


def generate(check, rng, tier, run_index):
    n_res = rng.randint(1, 5)
    n_wat = rng.randint(0, 3)
    members = []
    for _ in range(rng.randint(1, 2)):
        members.append({'n_frames': rng.weighted([(1, 1), (2, 2), (3, 2), (rng.randint(4, 12), 4)]),
                        'seed': rng.below(1 << 30),
                        'cell': _gen_cell(rng) if rng.chance(0.6 if check == 'C03' else 0.8) else None,
                        'time': rng.chance(0.6)})
    nops = rng.randint(5, 25 if tier == 'quick' else 40)
    ops = []
    if check == 'C03':
        W = [('index', 14), ('view', 2), ('join', 7), ('stack', 4), ('atom_slice', 6), ('remove_solvent', 3), ('center', 9),
             ('superpose', 4), ('set_xyz', 3), ('nudge', 3), ('set_time', 2), ('set_cell', 2), ('rmsd', 14), ('save', 3), ('analysis', 5),
             ('scribble', 5), ('top_edit', 2)]
    else:
        W = [('index', 8), ('join', 5), ('stack', 3), ('atom_slice', 4), ('set_vectors', 8), ('set_vectors_rot', 6),
             ('set_lengths', 6), ('set_angles', 6), ('set_vectors_none', 3), ('save_load', 6), ('center', 1), ('remove_solvent', 1)]
    for _ in range(nops):
        k = rng.weighted(W)
        o = {'op': k, 'i': rng.below(1 << 10)}
        if k in ('index', 'view'):
            o['key'] = _gen_key(rng)
        elif k == 'join':
            o['j'] = rng.below(1 << 10)
            o['how'] = rng.choice(['plus', 'method', 'mdjoin', 'mdjoin3', 'discard', 'discard_overlap', 'unchecked', 'mdjoin_unchecked'])
            o['j2'] = rng.below(1 << 10)
        elif k == 'stack':
            o['j'] = rng.below(1 << 10)
        elif k == 'atom_slice':
            o['bits'] = rng.below(1 << 40) | (1 << rng.below(6))
            o['inplace'] = rng.chance(0.4)
        elif k == 'remove_solvent':
            o['inplace'] = rng.chance(0.4)
            o['exclude'] = rng.weighted([(None, 5), ('HOH', 3), ('NA', 2)])      # exclude=[name]: that solvent is kept
        elif k == 'center':
            o['mw'] = rng.chance(0.3)
        elif k == 'superpose':
            o['j'] = rng.below(1 << 10)
            o['f'] = rng.below(1 << 10)
            o['parallel'] = rng.chance(0.5)
            # rarely used arguments: alignment on an atom subset, a different subset on the reference, and a call that must
            # be refused (subsets of different length) -- a refused call must leave the object as it was
            o['variant'] = rng.weighted([('all', 5), ('subset', 2), ('ref_subset', 2), ('refused', 2)])
            o['bits'] = rng.below(1 << 40) | 7
        elif k == 'nudge':
            o['seed'] = rng.below(1 << 20)
            o['how'] = rng.choice(['inplace', 'inplace', 'augmented', 'reassign_same'])
        elif k in ('set_xyz', 'set_time'):
            o['seed'] = rng.below(1 << 30)
        elif k == 'set_cell':
            o['cell'] = _gen_cell(rng)
        elif k == 'rmsd':
            o['j'] = rng.below(1 << 10)
            o['f'] = rng.below(1 << 10)
            o['pre'] = rng.chance(0.6)
            o['parallel'] = rng.chance(0.5)
        elif k == 'save':
            o['fmt'] = rng.choice(SAVE_FORMATS)
        elif k == 'analysis':
            o['what'] = rng.choice(ANALYSES)
            o['seed'] = rng.below(1 << 20)
        elif k == 'scribble':
            o['field'] = rng.choice(['xyz', 'xyz', 'time', 'L', 'A'])
        elif k in ('set_vectors', 'set_vectors_rot'):
            o['cell'] = _gen_cell(rng)
            o['rot'] = rng.below(1 << 20)
            o['zeros'] = (k == 'set_vectors') and rng.chance(0.1)
        elif k in ('set_lengths', 'set_angles'):
            o['cell'] = _gen_cell(rng)
            o['none'] = rng.chance(0.35)
            o['form'] = rng.weighted([('array', 5), ('deficient', 3), ('list', 2)])
        elif k == 'save_load':
            o['fmt'] = rng.choice(CELL_FORMATS)
            o['few_atoms'] = rng.weighted([(0, 6), (1, 1), (2, 2), (3, 1)])     # boundary sizes: save only the first 1-3 atoms
            o['all_frames'] = rng.chance(0.5)        # restart formats: save every frame (numbered files) instead of the first only
            o['dialect'] = rng.chance(0.4)           # dcd / trr / gro: the saved file is rewritten into the dialect another program writes
            o['save_kw'] = rng.below(8)              # format-specific keywords of the saver (pdb: header / ter / bfactors; gro: precision)
        ops.append(o)
    return {'check': check, 'n_res': n_res, 'n_wat': n_wat, 'members': members, 'ops': ops}


# ------------------------------------------------------------------ world helpers

def make_protein_top(md, n_res, n_wat):
    from mdtraj.core import element as elem
    top = md.Topology()
    ch = top.add_chain()
    prev_c = None
    for r in range(n_res):
        name = 'ALA' if r % 2 == 0 else 'GLY'
        res = top.add_residue(name, ch, resSeq=r + 1)
        n = top.add_atom('N', elem.nitrogen, res)
        h = top.add_atom('H', elem.hydrogen, res)
        ca = top.add_atom('CA', elem.carbon, res)
        c = top.add_atom('C', elem.carbon, res)
        o = top.add_atom('O', elem.oxygen, res)
        top.add_bond(n, ca)
        top.add_bond(n, h)
        top.add_bond(ca, c)
        top.add_bond(c, o)
        if name == 'ALA':
            cb = top.add_atom('CB', elem.carbon, res)
            top.add_bond(ca, cb)
        if prev_c is not None:
            top.add_bond(prev_c, n)
        prev_c = c
    if n_wat:
        ch2 = top.add_chain()
        for w in range(n_wat):
            res = top.add_residue('HOH', ch2, resSeq=100 + w)
            o = top.add_atom('O', elem.oxygen, res)
            h1 = top.add_atom('H1', elem.hydrogen, res)
            h2 = top.add_atom('H2', elem.hydrogen, res)
            top.add_bond(o, h1)
            top.add_bond(o, h2)
    return top


def labels_of(top):
    return [(a.name, a.element.symbol if a.element is not None else None, a.residue.name, a.residue.resSeq) for a in top.atoms]


def cell_arrays(spec, n):
    """valid (lengths nm, angles deg) for n frames, float32"""
    r = np.random.RandomState(spec['seed'])
    kind = spec['kind']
    a, b, c = r.uniform(2.0, 6.0, 3)
    if kind == 'cubic':
        L0, A0 = (a, a, a), (90, 90, 90)
    elif kind == 'ortho':
        L0, A0 = (a, b, c), (90, 90, 90)
    elif kind == 'mono':
        L0, A0 = (a, b, c), (90, r.uniform(95, 125), 90)
    elif kind == 'hex60':
        L0, A0 = (a, a, c), (90, 90, 60)
    elif kind == 'hex120':
        L0, A0 = (a, a, c), (90, 90, 120)
    elif kind == 'truncoct':
        L0, A0 = (a, a, a), (109.4712206, 109.4712206, 109.4712206)
    elif kind == 'rhombdod':
        L0, A0 = (a, a, a), (60, 60, 90)
    elif kind == 'rhombo60':
        L0, A0 = (a, a, a), (60.0, 60.0, 60.0)       # primitive cell of fcc / diamond
    elif kind == 'obtuse':
        L0, A0 = (a, b, c), (100.0, 105.0, 110.0)    # all angles obtuse
    elif kind == 'neardeg':
        L0, A0 = (a, b, c), (60.0, 60.0, 118.0)      # volume factor small but positive
    else:
        while True:
            A0 = tuple(r.uniform(50, 130, 3))
            ca, cb, cg = np.cos(np.radians(A0))
            if 1 - ca * ca - cb * cb - cg * cg + 2 * ca * cb * cg > 0.05:
                break
        L0 = (a, b, c)
    L = np.tile(np.array(L0, dtype=np.float64), (n, 1))
    A = np.tile(np.array(A0, dtype=np.float64), (n, 1))
    if spec['vary'] and n > 1:
        L *= (1.0 + 0.01 * np.arange(n))[:, None]
        if kind in ('tric', 'mono'):
            A[:, 1] += 0.2 * (np.arange(n) % 4)
    return L.astype(np.float32), A.astype(np.float32)


def vectors_from(L, A):
    """independent (numpy, float64) construction of box vectors in standard orientation; rows a, b, c"""
    L = np.asarray(L, dtype=np.float64)
    A = np.radians(np.asarray(A, dtype=np.float64))
    a, b, c = L[:, 0], L[:, 1], L[:, 2]
    ca, cb, cg = np.cos(A[:, 0]), np.cos(A[:, 1]), np.cos(A[:, 2])
    sg = np.sin(A[:, 2])
    V = np.zeros((len(L), 3, 3))
    V[:, 0, 0] = a
    V[:, 1, 0] = b * cg
    V[:, 1, 1] = b * sg
    V[:, 2, 0] = c * cb
    V[:, 2, 1] = c * (ca - cb * cg) / sg
    V[:, 2, 2] = np.sqrt(np.maximum(c * c - V[:, 2, 0] ** 2 - V[:, 2, 1] ** 2, 0))
    return V


def rotation(seed):
    r = np.random.RandomState(seed)
    q = r.normal(size=4)
    q /= np.linalg.norm(q)
    w, x, y, z = q
    return np.array([[1 - 2 * (y * y + z * z), 2 * (x * y - z * w), 2 * (x * z + y * w)],
                     [2 * (x * y + z * w), 1 - 2 * (x * x + z * z), 2 * (y * z - x * w)],
                     [2 * (x * z - y * w), 2 * (y * z + x * w), 1 - 2 * (x * x + y * y)]])


def lengths_angles_of(V):
    V = np.asarray(V, dtype=np.float64)
    a, b, c = V[:, 0], V[:, 1], V[:, 2]
    la, lb, lc = (np.linalg.norm(x, axis=1) for x in (a, b, c))
    ang = lambda u, v, lu, lv: np.degrees(np.arccos(np.clip(np.einsum('ij,ij->i', u, v) / (lu * lv), -1, 1)))
    return np.stack([la, lb, lc], 1), np.stack([ang(b, c, lb, lc), ang(c, a, lc, la), ang(a, b, la, lb)], 1)


def _rst7_two_atom_cell_line_is_recognisable(msrc):
    """the documented rule of the ASCII restart reader for one- and two-atom files: the 4th line is a cell iff one of its six
    numbers, as printed with seven decimals (lengths in Angstrom, angles in degrees), is >= 60"""
    if msrc.L is None or msrc.A is None:
        return False
    vals = [float('%12.7f' % v) for v in list(np.asarray(msrc.L[0], dtype=np.float64) * 10.0) + list(np.asarray(msrc.A[0], dtype=np.float64))]
    return max(vals) >= 60.0 + 1e-6 or any(abs(v - 60.0) < 5e-8 for v in vals)


def _as_form(v, form, res):
    """the value as the caller hands it over: an array, nested Python lists, or -- documented for a single frame --
    with the frame axis left out"""
    if form == 'deficient' and len(v) == 1:
        res.probe('cell_assigned_without_frame_axis')
        return v[0]
    if form == 'list':
        return v.tolist()
    return v


def resolve_key(key, n):
    k = key['k']
    if k == 'int':
        return int(key['v'] % n)
    if k == 'negint':
        return -1 - int(key['v'] % n)
    if k == 'npint':
        # a numpy integer scalar (what np.argmin, np.arange(...)[i], rng.integers return) or a 0-d array
        v = int(key['v'] % n)
        how = key['as']
        if how == 'neg64':
            return np.int64(-1 - v)
        if how == '0d':
            return np.array(v)
        return getattr(np, how)(v % 256 if how == 'uint8' else v)
    if k == 'ellipsis':
        return Ellipsis
    if k == 'range':
        a, b = sorted((key['a'] % (n + 1), key['b'] % (n + 1)))
        if a == b:
            a, b = 0, n
        return range(a, b, key['s'])
    if k in ('slice', 'stepslice', 'rslice'):
        a, b = sorted((key['a'] % (n + 1), key['b'] % (n + 1)))
        if a == b:
            a, b = (0, n) if n > 0 else (0, 0)
        s = key['s']
        if k == 'rslice':
            lo = None if 'a' in key['open'] else (b - 1)
            hi = None if ('b' in key['open'] or a == 0) else (a - 1)
            return slice(lo, hi, -s)
        lo = None if 'a' in key['open'] else a
        hi = None if 'b' in key['open'] else b
        return slice(lo, hi, s)
    if k == 'array':
        return np.array([v % n for v in key['v']], dtype=int)
    if k == 'list':
        # a plain Python list, every other entry counted from the end
        return [(v % n) if j % 2 == 0 else -1 - (v % n) for j, v in enumerate(key['v'])]
    if k == 'negarray':
        return np.array([-1 - (v % n) for v in key['v']], dtype=np.int32)
    if k == 'negslice':
        # both bounds counted from the end: t[-a:-b] / t[-a:]
        a, b = sorted((1 + key['a'] % n, key['b'] % n), reverse=True)
        if a == b:
            b = 0
        return slice(-a, (-b if b else None), key['s'])
    bits = key['bits']
    m = np.array([(bits >> (i % 16)) & 1 for i in range(n)], dtype=bool)
    if not m.any():
        m[0] = True
    return m


def key_class(key):
    return key['k']


class Member(object):
    _next = [0]

    def __init__(self, t, xyz, time, L, A, labels):
        self.t = t
        self.dirty = False           # coordinates were written in place since the last centring: cached traces are the caller's problem
        self.xyz = np.array(xyz, dtype=np.float32)
        self.time = np.array(time)
        self.L = None if L is None else np.array(L, dtype=np.float32)
        self.A = None if A is None else np.array(A, dtype=np.float32)
        self.labels = list(labels)
        self.id = Member._next[0]
        self.meta_group = self.id     # members of one group may share time/cell arrays (stack shares them with its left operand)
        Member._next[0] += 1

    @property
    def complete(self):
        return self.L is not None and self.A is not None

    @property
    def n(self):
        return self.xyz.shape[0]


def _eq(a, b):
    if a is None or b is None:
        return a is None and b is None
    a, b = np.asarray(a), np.asarray(b)
    return a.shape == b.shape and np.array_equal(np.asarray(a, dtype=np.float32), np.asarray(b, dtype=np.float32))


def _close(a, b, atol, rtol=0.0):
    if a is None or b is None:
        return a is None and b is None
    a, b = np.asarray(a, dtype=np.float64), np.asarray(b, dtype=np.float64)
    return a.shape == b.shape and np.allclose(a, b, atol=atol, rtol=rtol)


def compare_member(m, cell=True):
    """live object vs model -> (field, detail) or None"""
    t = m.t
    if t.n_frames != m.n:
        return 'n_frames', {'expected': m.n, 'got': int(t.n_frames)}
    if t.xyz.shape != m.xyz.shape:
        return 'xyz_shape', {'expected': list(m.xyz.shape), 'got': list(t.xyz.shape)}
    if not _eq(t.xyz, m.xyz):
        bad = np.nonzero(np.any(np.asarray(t.xyz) != m.xyz, axis=(1, 2)))[0]
        return 'xyz', {'frames_differing': bad[:8].tolist(), 'max_abs': float(np.nanmax(np.abs(t.xyz - m.xyz)))}
    tt = np.asarray(t.time)
    if tt.shape != (m.n,):
        return 'time_length', {'expected': m.n, 'got': list(tt.shape)}
    if not _eq(tt, m.time):
        return 'time', {'expected': np.asarray(m.time).tolist()[:10], 'got': tt.tolist()[:10]}
    if cell:
        for nm, ref in (('unitcell_lengths', m.L), ('unitcell_angles', m.A)):
            got = getattr(t, nm)
            if (got is None) != (ref is None):
                return nm + '_presence', {'expected_none': ref is None, 'got_none': got is None}
            if got is not None:
                if np.asarray(got).shape != (m.n, 3):
                    return nm + '_length', {'expected': [m.n, 3], 'got': list(np.asarray(got).shape)}
                if not _close(got, ref, atol=1e-5, rtol=1e-6):
                    return nm, {'expected': ref.tolist()[:3], 'got': np.asarray(got).tolist()[:3]}
    if t.topology is not None:
        if t.topology.n_atoms != len(m.labels):
            return 'topology_size', {'expected': len(m.labels), 'got': t.topology.n_atoms}
        lab = labels_of(t.topology)
        if lab != m.labels:
            i = [k for k in range(len(lab)) if lab[k] != m.labels[k]][0]
            return 'topology', {'first_diff': i, 'expected': list(m.labels[i]), 'got': list(lab[i])}
    return None


def rmsd_agrees(got, ref, xt, xr_frame):
    """got/ref: RMSD arrays; xt: target coordinates (n_frames, n_atoms, 3); xr_frame: the reference frame.
    float32 QCP computes msd = (G_t + G_r - 2*lambda)/N: its noise scales with the mean squared radii G/N, so the comparison
    is made on msd with a tolerance relative to them.  A stale trace is off by a sizeable fraction of G/N."""
    got = np.asarray(got, dtype=np.float64)
    ref = np.asarray(ref, dtype=np.float64)
    if got.shape != ref.shape:
        return False
    xt = np.asarray(xt, dtype=np.float64)
    xr = np.asarray(xr_frame, dtype=np.float64)
    g_t = ((xt - xt.mean(1)[:, None, :]) ** 2).sum(2).mean(1)
    g_r = ((xr - xr.mean(0)) ** 2).sum(1).mean()
    tol = 2e-3 * (g_t + g_r) + 1e-6
    return bool(np.all(np.abs(got ** 2 - ref ** 2) <= tol))


def kabsch_fit(P, Q):
    """rotate+translate P (n,3) onto Q (n,3) -> (R, tP, tQ): x' = (x - tP) @ R + tQ"""
    P = np.asarray(P, dtype=np.float64)
    Q = np.asarray(Q, dtype=np.float64)
    tP, tQ = P.mean(0), Q.mean(0)
    H = (P - tP).T @ (Q - tQ)
    U, S, Vt = np.linalg.svd(H)
    d = np.sign(np.linalg.det(U @ Vt))
    D = np.diag([1, 1, d])
    R = U @ D @ Vt
    return R, tP, tQ, S


# ------------------------------------------------------------------ execute

def execute(check, case, workdir):
    import warnings
    warnings.simplefilter('ignore')
    import mdtraj as md
    res = Result()
    Member._next[0] = 0
    judge03 = check == 'C03'
    judge17 = check == 'C17'
    top0 = make_protein_top(md, case['n_res'], case['n_wat'])
    n_atoms = top0.n_atoms
    pool = []

    def add(m):
        if m.n == 0:
            return          # zero-frame results are compared when they arise but not kept (kernels are not written for them)
        pool.append(m)
        while len(pool) > POOL_MAX:
            pool.pop(0)

    for ms in case['members']:
        r = np.random.RandomState(ms['seed'])
        n = ms['n_frames']
        base = r.normal(scale=0.4, size=(n_atoms, 3))
        xyz = np.empty((n, n_atoms, 3), dtype=np.float64)
        for f in range(n):
            xyz[f] = base * (1.0 + 0.35 * f) + r.normal(scale=0.05, size=(n_atoms, 3)) + r.uniform(-2, 2, size=3)
        xyz = xyz.astype(np.float32)
        time = (np.arange(n) * 0.5 + 3.0).astype(np.float32) if ms['time'] else None
        L = A = None
        if ms['cell'] is not None:
            L, A = cell_arrays(ms['cell'], n)
        t = md.Trajectory(xyz.copy(), top0.copy(), time=None if time is None else time.copy(),
                          unitcell_lengths=None if L is None else L.copy(), unitcell_angles=None if A is None else A.copy())
        add(Member(t, xyz, np.arange(n) if time is None else time, L, A, labels_of(top0)))

    def viol(op, kind, detail, stepno, flags=''):
        d = dict(detail)
        res.violate('%s|%s|%s|%s' % (check, op, kind, flags), stepno, d)

    def pick(raw, cands=None):
        c = pool if cands is None else cands
        return c[raw % len(c)]

    def cache_state(m):
        tr = getattr(m.t, '_rmsd_traces', None)
        return 'none' if tr is None else 'set'

    def check_pool(stepno, opname, flags, skip=None):
        """invariant 1: every pool member equals its model"""
        for m in pool:
            if skip is not None and m is skip:
                continue
            bad = compare_member(m, cell=True)
            if bad is None:
                continue
            field = bad[0]
            is_cell = field.startswith('unitcell')
            if (judge03 and not is_cell) or (judge17 and is_cell):
                viol(opname, 'model_mismatch:' + field, dict(bad[1], member=m.id), stepno, flags)
                return False
            # not this check's clause: resync silently so that later steps stay meaningful
            _resync(m)
        return True

    def _resync(m):
        t = m.t
        m.xyz = np.array(t.xyz, dtype=np.float32)
        m.time = np.array(t.time)
        m.L = None if t.unitcell_lengths is None else np.array(t.unitcell_lengths, dtype=np.float32)
        m.A = None if t.unitcell_angles is None else np.array(t.unitcell_angles, dtype=np.float32)
        if t.topology is not None:
            m.labels = labels_of(t.topology)

    def check_cell_semantics(stepno, opname, flags):
        """C17: vectors <-> lengths/angles on every complete cell reached; None <=> incomplete"""
        if not judge17:
            return
        for m in pool:
            t = m.t
            V = t.unitcell_vectors
            if (V is None) != (not m.complete):
                viol(opname, 'vectors_presence', {'model_complete': m.complete, 'vectors_none': V is None, 'member': m.id}, stepno, flags)
                return
            if V is None:
                if t.unitcell_volumes is not None:
                    viol(opname, 'volumes_without_cell', {'member': m.id}, stepno, flags)
                    return
                continue
            res.probe('cell_conversion_checked')
            V = np.asarray(V, dtype=np.float64)
            if V.shape != (m.n, 3, 3):
                viol(opname, 'vectors_shape', {'expected': [m.n, 3, 3], 'got': list(V.shape)}, stepno, flags)
                return
            L = np.asarray(m.L, dtype=np.float64)
            A = np.asarray(m.A, dtype=np.float64)
            gl, ga = lengths_angles_of(V)
            if not np.allclose(gl, L, rtol=3e-5, atol=1e-6):
                viol(opname, 'vector_lengths', {'stored': L.tolist()[:2], 'from_vectors': gl.tolist()[:2]}, stepno, flags)
                return
            if not np.allclose(ga, A, atol=2e-2):
                viol(opname, 'vector_angles', {'stored': A.tolist()[:2], 'from_vectors': ga.tolist()[:2]}, stepno, flags)
                return
            scale = L.max()
            if np.abs(V[:, 0, 1:]).max() > 1e-5 * scale or np.abs(V[:, 1, 2]).max() > 1e-5 * scale:
                viol(opname, 'orientation', {'vectors': V[0].tolist()}, stepno, flags)
                return
            if (V[:, 0, 0] <= 0).any() or (V[:, 1, 1] <= 0).any():
                viol(opname, 'orientation_sign', {'vectors': V[0].tolist()}, stepno, flags)
                return
            # the other public description of the same cell: extents and tilt components (mdtraj.utils.lengths_and_angles_to_tilt_factors,
            # what the HOOMD/LAMMPS style writers use) must be the components of these very vectors
            from mdtraj.utils import lengths_and_angles_to_tilt_factors as _tilt
            tf = np.asarray(_tilt(L[:, 0], L[:, 1], L[:, 2], A[:, 0], A[:, 1], A[:, 2]), dtype=np.float64)
            want_tf = np.array([V[:, 0, 0], V[:, 1, 1], V[:, 2, 2], V[:, 1, 0], V[:, 2, 0], V[:, 2, 1]])
            if tf.shape != want_tf.shape or not np.allclose(tf, want_tf, rtol=2e-4, atol=3e-5 * scale):
                k0 = int(np.argmax(np.abs(tf - want_tf).max(0))) if tf.shape == want_tf.shape else 0
                viol(opname, 'tilt_factors', {'from_helper': tf[:, k0].tolist() if tf.ndim == 2 else None, 'from_vectors': want_tf[:, k0].tolist(),
                                              'lengths': L[k0].tolist(), 'angles': A[k0].tolist()}, stepno, flags)
                return
            det = np.einsum('ij,ij->i', V[:, 0], np.cross(V[:, 1], V[:, 2]))
            if (det <= 0).any():
                viol(opname, 'volume_not_positive', {'det': det.tolist()[:3]}, stepno, flags)
                return
            vol = t.unitcell_volumes
            if vol is None or not np.allclose(vol, det, rtol=1e-4):
                viol(opname, 'volume_vs_triple_product', {'volumes': None if vol is None else np.asarray(vol).tolist()[:3], 'triple': det.tolist()[:3]}, stepno, flags)
                return
            ca, cb, cg = np.cos(np.radians(A)).T
            ana = L.prod(1) * np.sqrt(np.maximum(1 - ca * ca - cb * cb - cg * cg + 2 * ca * cb * cg, 0))
            if not np.allclose(vol, ana, rtol=2e-3):
                viol(opname, 'volume_vs_lengths_angles', {'volumes': np.asarray(vol).tolist()[:3], 'analytic': ana.tolist()[:3]}, stepno, flags)
                return

    def derived_checks(r, srcs, opname, stepno, flags, share_rule):
        """aliasing of a freshly derived trajectory r against its inputs.
        share_rule: 'none' (no mutable datum shared), 'xyz' (only coordinates must be private), 'view' (anything goes)"""
        if not judge03 or share_rule == 'view':
            return True
        for s in srcs:
            if r is s.t:
                continue
            if np.shares_memory(r.xyz, s.t.xyz):
                viol(opname, 'shares_coordinates', {'with_member': s.id}, stepno, flags)
                return False
            if share_rule == 'none':
                for nm in ('time', 'unitcell_lengths', 'unitcell_angles'):
                    a, b = getattr(r, nm), getattr(s.t, nm)
                    if a is not None and b is not None and np.shares_memory(a, b):
                        viol(opname, 'shares_' + nm, {'with_member': s.id}, stepno, flags)
                        return False
                if r.topology is not None and s.t.topology is not None:
                    if r.topology is s.t.topology:
                        viol(opname, 'shares_topology', {'with_member': s.id}, stepno, flags)
                        return False
                    if r.topology.n_atoms and s.t.topology.n_atoms:
                        own = set(id(a) for a in s.t.topology.atoms)
                        if any(id(a) in own for a in r.topology.atoms):
                            viol(opname, 'shares_atom_objects', {'with_member': s.id}, stepno, flags)
                            return False
        return True

    def judge_cell_completeness(r, complete_in, opname, stepno, flags):
        """C17 history clause: complete per-frame cell exactly when the input had one"""
        if not judge17:
            return True
        got = r.unitcell_lengths is not None and r.unitcell_angles is not None
        if got != complete_in:
            viol(opname, 'cell_completeness', {'input_complete': complete_in, 'result_complete': got}, stepno, flags)
            return False
        if got and (len(r.unitcell_lengths) != r.n_frames or len(r.unitcell_angles) != r.n_frames):
            viol(opname, 'cell_length', {'n_frames': int(r.n_frames), 'lengths': len(r.unitcell_lengths)}, stepno, flags)
            return False
        if not got and (r.unitcell_lengths is not None or r.unitcell_angles is not None):
            # a half-set going in may stay a half-set only for in-place operations; new objects carry none
            pass
        return True

    def snapshot_bytes(m):
        t = m.t
        return (t.xyz.tobytes(), np.asarray(t.time).tobytes(),
                None if t.unitcell_lengths is None else np.asarray(t.unitcell_lengths).tobytes(),
                None if t.unitcell_angles is None else np.asarray(t.unitcell_angles).tobytes(),
                labels_of(t.topology) if t.topology is not None else None,
                None if t.topology is None else sorted((b[0].index, b[1].index) for b in t.topology.bonds))

    # ------------------------------------------------------------------ steps
    for stepno, op in enumerate(case['ops']):
        res.steps += 1
        kind = op['op']
        m = pick(op['i'])
        t = m.t
        flags = ''
        try:
            if kind in ('index', 'view'):
                key = resolve_key(op['key'], m.n)
                kc = key_class(op['key'])
                flags = 'key=%s,cache=%s' % (kc, cache_state(m))
                copy = kind == 'index'
                if copy:
                    r = t[key] if op['i'] % 2 == 0 else t.slice(key, copy=True)
                else:
                    r = t.slice(key, copy=False)
                if cache_state(m) == 'set':
                    res.probe('cache_present_at_slice')
                idx = np.arange(m.n)[key]
                idx = np.atleast_1d(idx)
                mm = Member(r, m.xyz[idx], m.time[idx], None if m.L is None else m.L[idx], None if m.A is None else m.A[idx], m.labels)
                mm.dirty = m.dirty
                res.log.append('%d %s m%d[%s] -> %d frames' % (stepno, kind, m.id, kc, mm.n))
                res.trace.append((kind, kc, cache_state(m), m.complete))
                bad = compare_member(mm, cell=True)
                if bad is not None:
                    is_cell = bad[0].startswith('unitcell')
                    if (judge03 and not is_cell) or (judge17 and is_cell):
                        viol(kind, 'result_mismatch:' + bad[0], bad[1], stepno, flags)
                        continue
                    _resync(mm)
                if not derived_checks(r, [m], kind, stepno, flags, 'none' if copy else 'view'):
                    continue
                if not judge_cell_completeness(r, m.complete, kind, stepno, flags):
                    continue
                if copy:
                    add(mm)
                else:
                    res.probe('view_checked_and_dropped')
                    if judge03 and cache_state(m) == 'set' and not m.dirty and mm.n > 0 and mm.xyz.shape[1] >= 3:
                        # the view inherits the cache of its parent: the precentered shortcut on it must agree with from-scratch
                        T0 = md.Trajectory(mm.xyz.copy(), None)
                        ref_v = md.rmsd(T0, T0, 0, parallel=False)
                        got_v = md.rmsd(r, r, 0, precentered=True, parallel=False)
                        res.probe('precentered_rmsd_on_view')
                        if not rmsd_agrees(got_v, ref_v, mm.xyz, mm.xyz[0]):
                            viol('view', 'rmsd_differs_from_scratch', {'expected': np.asarray(ref_v).tolist()[:8], 'got': np.asarray(got_v).tolist()[:8]}, stepno, flags)
                        m.xyz = np.array(t.xyz, dtype=np.float32)     # documented in-place centring may have touched the shared coordinates
            elif kind == 'join':
                cands = [x for x in pool if x.labels == m.labels and x.complete == m.complete and (x.L is None) == (m.L is None) and (x.A is None) == (m.A is None)]
                u = pick(op['j'], cands)
                parts = [m, u]
                how = op['how']
                if how == 'mdjoin3':
                    parts.append(pick(op['j2'], cands))
                flags = 'how=%s,cell=%s' % (how, 'complete' if m.complete else ('half' if (m.L is not None or m.A is not None) else 'none'))
                if how == 'discard_overlap':
                    # a partner that really overlaps: it starts with this trajectory's last frame
                    tail = t[-1:]
                    tail_m = Member(tail, m.xyz[-1:], m.time[-1:], None if m.L is None else m.L[-1:], None if m.A is None else m.A[-1:], m.labels)
                    tail_j = tail.join(u.t)
                    ov = Member(tail_j, np.concatenate([tail_m.xyz, u.xyz]), np.concatenate([tail_m.time, u.time]),
                                np.concatenate([tail_m.L, u.L]) if m.complete else None, np.concatenate([tail_m.A, u.A]) if m.complete else None, m.labels)
                    parts = [m, ov]
                    res.probe('join_discarding_a_real_overlap')
                if how == 'plus':
                    r = t + u.t
                elif how == 'method':
                    r = t.join(u.t)
                elif how in ('discard', 'discard_overlap'):
                    r = t.join([p.t for p in parts[1:]], discard_overlapping_frames=True)
                elif how == 'unchecked':
                    r = t.join(u.t, check_topology=False)           # the caller vouches for equal topologies: same result, no comparison
                elif how == 'mdjoin_unchecked':
                    r = md.join([p.t for p in parts], check_topology=False)
                else:
                    r = md.join([p.t for p in parts])
                keep = [np.arange(p.n) for p in parts]
                if how in ('discard', 'discard_overlap'):
                    # documented rule: drop the last frame of a piece when it coincides (|dx| < 2e-3 everywhere) with the first of the next
                    for k in range(len(parts) - 1):
                        if len(keep[k]) and parts[k + 1].n and np.all(np.abs(parts[k + 1].xyz[0] - parts[k].xyz[keep[k][-1]]) < 2e-3):
                            keep[k] = keep[k][:-1]
                cat = lambda name: np.concatenate([getattr(p, name)[kk] for p, kk in zip(parts, keep)])
                L = cat('L') if m.complete else None
                A = cat('A') if m.complete else None
                mm = Member(r, cat('xyz'), cat('time'), L, A, m.labels)
                res.log.append('%d join(%s) %s -> %d frames' % (stepno, how, [p.id for p in parts], mm.n))
                res.trace.append(('join', how, m.complete))
                bad = compare_member(mm, cell=True)
                if bad is not None:
                    is_cell = bad[0].startswith('unitcell')
                    if (judge03 and not is_cell) or (judge17 and is_cell):
                        viol('join', 'result_mismatch:' + bad[0], bad[1], stepno, flags)
                        continue
                    _resync(mm)
                if not derived_checks(r, parts, 'join', stepno, flags, 'none'):
                    continue
                if not judge_cell_completeness(r, m.complete, 'join', stepno, flags):
                    continue
                add(mm)
            elif kind == 'stack':
                cands = [x for x in pool if x.n == m.n]
                u = pick(op['j'], cands)
                flags = 'cell=%s' % ('complete' if m.complete else 'incomplete')
                r = t.stack(u.t)
                mm = Member(r, np.hstack((m.xyz, u.xyz)), m.time, m.L, m.A, m.labels + u.labels)
                mm.meta_group = m.meta_group
                res.log.append('%d stack m%d m%d -> %d atoms' % (stepno, m.id, u.id, mm.xyz.shape[1]))
                res.trace.append(('stack', m.complete, u.complete))
                bad = compare_member(mm, cell=True)
                if bad is not None:
                    is_cell = bad[0].startswith('unitcell')
                    if (judge03 and not is_cell) or (judge17 and is_cell):
                        viol('stack', 'result_mismatch:' + bad[0], bad[1], stepno, flags)
                        continue
                    _resync(mm)
                if not derived_checks(r, [m, u], 'stack', stepno, flags, 'xyz'):
                    continue
                if not judge_cell_completeness(r, m.complete, 'stack', stepno, flags):
                    continue
                if mm.xyz.shape[1] <= 120:
                    add(mm)
            elif kind in ('atom_slice', 'remove_solvent'):
                na = m.xyz.shape[1]
                if kind == 'atom_slice':
                    idx = np.array([a for a in range(na) if (op['bits'] >> (a % 40)) & 1], dtype=int)
                    if len(idx) == 0:
                        idx = np.array([0])
                else:
                    keep_water = op.get('exclude') == 'HOH'
                    idx = np.array([a for a in range(na) if keep_water or m.labels[a][2] != 'HOH'], dtype=int)
                    if len(idx) == 0:
                        continue
                inplace = op['inplace']
                cs_before = cache_state(m)
                flags = 'inplace=%d,cache=%s' % (inplace, cs_before)
                if kind == 'atom_slice':
                    r = t.atom_slice(idx, inplace=inplace)
                else:
                    r = t.remove_solvent(inplace=inplace) if not op.get('exclude') else t.remove_solvent(exclude=[op['exclude']], inplace=inplace)
                    flags += ',exclude=%s' % op.get('exclude')
                if cs_before == 'set' and inplace:
                    res.probe('cache_present_at_inplace_atom_slice')
                labels = [m.labels[a] for a in idx]
                res.log.append('%d %s m%d inplace=%d -> %d atoms' % (stepno, kind, m.id, inplace, len(idx)))
                res.trace.append((kind, inplace, cs_before, m.complete))
                if inplace:
                    if r is not t:
                        viol(kind, 'inplace_returned_other_object', {}, stepno, flags)
                        continue
                    m.xyz = m.xyz[:, idx]
                    m.labels = labels
                else:
                    keepL = m.L if m.complete else None
                    keepA = m.A if m.complete else None
                    mm = Member(r, m.xyz[:, idx], m.time, keepL, keepA, labels)
                    bad = compare_member(mm, cell=True)
                    if bad is not None:
                        is_cell = bad[0].startswith('unitcell')
                        if (judge03 and not is_cell) or (judge17 and is_cell):
                            viol(kind, 'result_mismatch:' + bad[0], bad[1], stepno, flags)
                            continue
                        _resync(mm)
                    if not derived_checks(r, [m], kind, stepno, flags, 'none'):
                        continue
                    if not judge_cell_completeness(r, m.complete, kind, stepno, flags):
                        continue
                    add(mm)
            elif kind == 'center':
                mw = op['mw']
                flags = 'mass_weighted=%d' % mw
                t.center_coordinates(mass_weighted=mw)
                x64 = m.xyz.astype(np.float64)
                if mw:
                    masses = np.array([a.element.mass for a in t.topology.atoms])
                    com = np.einsum('fai,a->fi', x64, masses) / masses.sum()
                else:
                    com = x64.mean(1)
                exp = x64 - com[:, None, :]
                res.log.append('%d center m%d mw=%d' % (stepno, m.id, mw))
                res.trace.append(('center', mw, cache_state(m)))
                scale = max(1.0, float(np.abs(x64).max()))
                if judge03 and not _close(t.xyz, exp, atol=2e-5 * scale):
                    viol('center', 'result_mismatch:xyz', {'max_abs': float(np.abs(t.xyz - exp).max())}, stepno, flags)
                    continue
                m.xyz = np.array(t.xyz, dtype=np.float32)
                m.dirty = False
            elif kind == 'superpose':
                cands = [x for x in pool if x.xyz.shape[1] == m.xyz.shape[1]]
                u = pick(op['j'], cands)
                f = op['f'] % u.n
                refx = u.xyz[f].astype(np.float64).copy()
                before_u = snapshot_bytes(u) if u is not m else None
                variant = op.get('variant', 'all')
                na_ = m.xyz.shape[1]
                sel = np.array([a for a in range(na_) if (op.get('bits', 7) >> (a % 40)) & 1], dtype=int)
                if variant != 'all' and (len(sel) < 3 or len(sel) == na_):
                    variant = 'all'
                flags = 'self=%d,parallel=%d,%s' % (u is m, op['parallel'], variant)
                if variant == 'refused':
                    before_m = snapshot_bytes(m)
                    cs_m = cache_state(m)
                    res.fault('refused_superpose')
                    try:
                        t.superpose(u.t, frame=f, atom_indices=sel, ref_atom_indices=sel[:-1], parallel=op['parallel'])
                        raised = False
                    except Exception:
                        raised = True
                    res.log.append('%d superpose(refused) m%d -> %s' % (stepno, m.id, 'raised' if raised else 'accepted'))
                    res.trace.append(('superpose', 'refused', cs_m, raised))
                    if judge03 and raised and snapshot_bytes(m) != before_m:
                        viol('superpose', 'refused_call_modified_object', {'cache': cs_m}, stepno, flags)
                        m.xyz = np.array(t.xyz, dtype=np.float32)
                        continue
                    if judge03 and before_u is not None and snapshot_bytes(u) != before_u:
                        viol('superpose', 'reference_mutated', {'reference_member': u.id}, stepno, flags)
                        continue
                    m.xyz = np.array(t.xyz, dtype=np.float32)
                    continue
                if variant == 'subset':
                    t.superpose(u.t, frame=f, atom_indices=sel, parallel=op['parallel'])
                elif variant == 'ref_subset':
                    rsel = np.roll(sel, 1)
                    t.superpose(u.t, frame=f, atom_indices=sel, ref_atom_indices=rsel, parallel=op['parallel'])
                else:
                    t.superpose(u.t, frame=f, parallel=op['parallel'])
                res.log.append('%d superpose m%d onto m%d[%d]' % (stepno, m.id, u.id, f))
                res.trace.append(('superpose', u is m, cache_state(m)))
                if m.xyz.shape[1] >= 3 and judge03:
                    # the result must be a rigid motion of the input whose RMSD to the reference frame is the optimal one
                    # (coordinates are not compared: for planar / near-degenerate point sets the optimal rotation is not unique)
                    scale = max(1.0, float(np.abs(m.xyz).max()), float(np.abs(refx).max()))
                    live = np.asarray(t.xyz, dtype=np.float64)
                    bad_kind = None
                    for k in range(m.n):
                        x0 = m.xyz[k].astype(np.float64)
                        d0 = np.linalg.norm(x0[:, None] - x0[None], axis=2)
                        d1 = np.linalg.norm(live[k][:, None] - live[k][None], axis=2)
                        if np.abs(d0 - d1).max() > 2e-4 * scale:
                            bad_kind = ('not_rigid', float(np.abs(d0 - d1).max()))
                            break
                        if variant == 'all':
                            cen_live, cen_ref = live[k].mean(0), refx.mean(0)
                        elif variant == 'subset':
                            cen_live, cen_ref = live[k][sel].mean(0), refx[sel].mean(0)
                        else:
                            cen_live, cen_ref = live[k][sel].mean(0), refx[np.roll(sel, 1)].mean(0)
                        if np.abs(cen_live - cen_ref).max() > 2e-4 * scale:
                            bad_kind = ('centroid', float(np.abs(cen_live - cen_ref).max()))
                            break
                        # How good the superposition is numerically belongs to C06 (not claimed; the QCP kernel may give up on
                        # degenerate point sets): a history relies only on "rigid motion onto the reference's centroid".
                    if bad_kind is not None:
                        viol('superpose', 'result_mismatch:' + bad_kind[0], {'excess': bad_kind[1]}, stepno, flags)
                        m.xyz = np.array(t.xyz, dtype=np.float32)
                        continue
                if judge03 and before_u is not None and snapshot_bytes(u) != before_u:
                    viol('superpose', 'reference_mutated', {'reference_member': u.id}, stepno, flags)
                    continue
                m.xyz = np.array(t.xyz, dtype=np.float32)
            elif kind == 'set_xyz':
                r = np.random.RandomState(op['seed'])
                new = (m.xyz * r.uniform(0.5, 1.5) + r.normal(scale=0.3, size=m.xyz.shape)).astype(np.float32)
                flags = 'cache=%s' % cache_state(m)
                t.xyz = new.copy()
                m.xyz = new
                m.dirty = False
                res.log.append('%d set_xyz m%d' % (stepno, m.id))
                res.trace.append(('set_xyz', cache_state(m)))
            elif kind == 'nudge':
                # the caller writes into the coordinate array in place (t.xyz[...] += shift): legal, and invisible to the object.
                # Until the next centring the precentered shortcut is the caller's own risk and is not judged; centring again
                # must really centre.
                r = np.random.RandomState(op['seed'])
                shift = r.normal(scale=0.5, size=(m.n, 1, 3)).astype(np.float32)
                how = op.get('how', 'inplace')
                had_cache = cache_state(m) == 'set'
                if how == 'augmented':
                    t.xyz += shift                      # goes through the property setter -- with the very array the object already holds
                elif how == 'reassign_same':
                    a_ = t.xyz
                    a_[...] += shift
                    t.xyz = a_
                else:
                    t.xyz[...] += shift
                m.xyz = np.array(t.xyz, dtype=np.float32)
                if how == 'inplace':
                    if had_cache:
                        m.dirty = True
                        res.probe('in_place_write_with_cached_traces')
                else:
                    # an assignment through the setter: from here on the object knows, and the shortcut is judged again
                    m.dirty = False
                    if had_cache:
                        res.probe('setter_given_its_own_array_with_cached_traces')
                res.log.append('%d nudge m%d' % (stepno, m.id))
                res.trace.append(('nudge', cache_state(m)))
            elif kind == 'set_time':
                r = np.random.RandomState(op['seed'])
                new = np.cumsum(r.uniform(0.1, 2.0, size=m.n)).astype(np.float32)
                t.time = new.copy()
                m.time = new
                res.log.append('%d set_time m%d' % (stepno, m.id))
                res.trace.append(('set_time',))
            elif kind == 'set_cell':
                L, A = cell_arrays(op['cell'], m.n)
                t.unitcell_lengths = L.copy()
                t.unitcell_angles = A.copy()
                m.L, m.A = L, A
                res.log.append('%d set_cell m%d %s' % (stepno, m.id, op['cell']['kind']))
                res.trace.append(('set_cell', op['cell']['kind']))
            elif kind in ('set_vectors', 'set_vectors_rot'):
                L, A = cell_arrays(op['cell'], m.n)
                V = vectors_from(L, A)
                flags = 'kind=%s' % op['cell']['kind']
                if op.get('zeros'):
                    t.unitcell_vectors = np.zeros((m.n, 3, 3))
                    m.L = m.A = None
                    res.probe('vectors_zero_assignment')
                    res.log.append('%d set_vectors(zeros) m%d' % (stepno, m.id))
                else:
                    if kind == 'set_vectors_rot':
                        R = rotation(op['rot'])
                        V = V @ R.T
                        res.probe('rotated_vectors_assigned')
                    t.unitcell_vectors = V.astype(np.float32) if op['rot'] % 2 else V     # arrays only: the setter is documented for (n_frames, 3, 3) arrays and refuses lists
                    gl, ga = t.unitcell_lengths, t.unitcell_angles
                    res.log.append('%d %s m%d %s' % (stepno, kind, m.id, op['cell']['kind']))
                    if judge17:
                        if gl is None or ga is None:
                            viol(kind, 'cell_missing_after_vector_assignment', {}, stepno, flags)
                            continue
                        if not np.allclose(gl, L, rtol=3e-5) or not np.allclose(ga, A, atol=2e-2):
                            viol(kind, 'roundtrip_lengths_angles', {'assigned_L': L.tolist()[:2], 'assigned_A': A.tolist()[:2],
                                                                   'read_L': np.asarray(gl).tolist()[:2], 'read_A': np.asarray(ga).tolist()[:2]}, stepno, flags)
                            continue
                    m.L = None if gl is None else np.array(gl, dtype=np.float32)
                    m.A = None if ga is None else np.array(ga, dtype=np.float32)
                res.trace.append((kind, op['cell']['kind'], bool(op.get('zeros'))))
            elif kind == 'set_vectors_none':
                t.unitcell_vectors = None
                m.L = m.A = None
                res.log.append('%d set_vectors(None) m%d' % (stepno, m.id))
                res.trace.append(('set_vectors_none',))
            elif kind in ('set_lengths', 'set_angles'):
                L, A = cell_arrays(op['cell'], m.n)
                if kind == 'set_lengths':
                    val = None if op['none'] else L
                    t.unitcell_lengths = None if val is None else _as_form(val.copy(), op.get('form'), res)
                    m.L = val
                else:
                    val = None if op['none'] else A
                    t.unitcell_angles = None if val is None else _as_form(val.copy(), op.get('form'), res)
                    m.A = val
                if (m.L is None) != (m.A is None):
                    res.probe('half_set_cell_reached')
                res.log.append('%d %s m%d %s' % (stepno, kind, m.id, 'None' if val is None else op['cell']['kind']))
                res.trace.append((kind, val is None, m.complete))
            elif kind == 'rmsd':
                cands = [x for x in pool if x.xyz.shape[1] == m.xyz.shape[1]]
                u = pick(op['j'], cands)
                f = op['f'] % u.n
                pre = op['pre'] and not (m.dirty or u.dirty)
                shortcut = pre and cache_state(m) == 'set' and cache_state(u) == 'set'
                flags = 'precentered=%d,shortcut=%d' % (pre, shortcut)
                if shortcut:
                    res.probe('precentered_shortcut_taken')
                # from-scratch value on independent copies rebuilt from the models
                T0 = md.Trajectory(m.xyz.copy(), None)
                R0 = md.Trajectory(u.xyz.copy(), None)
                ref = md.rmsd(T0, R0, f, parallel=False)
                old_m, old_u = m.xyz.copy(), u.xyz.copy()
                got = md.rmsd(t, u.t, f, precentered=pre, parallel=op['parallel'])
                res.log.append('%d rmsd m%d vs m%d[%d] pre=%d shortcut=%d' % (stepno, m.id, u.id, f, pre, shortcut))
                res.trace.append(('rmsd', pre, cache_state(m), cache_state(u), u is m))
                if judge03:
                    # float32 QCP: near-zero RMSDs carry noise of up to ~1e-2 nm; a stale trace is off by >= 0.1 nm here
                    enough_atoms = m.xyz.shape[1] >= 3
                    if np.asarray(got).shape != (m.n,) or (enough_atoms and not rmsd_agrees(got, ref, old_m, old_u[f])):
                        viol('rmsd', 'differs_from_scratch', {'expected': np.asarray(ref).tolist()[:8], 'got': np.asarray(got).tolist()[:8],
                                                              'target_frames': m.n}, stepno, flags)
                        m.xyz = np.array(m.t.xyz, dtype=np.float32)
                        u.xyz = np.array(u.t.xyz, dtype=np.float32)
                        continue
                    # documented in-place centring of target and reference (frame f); nothing else may change
                    for mem, old, frames in ((m, old_m, None), (u, old_u, [f])):
                        live = np.asarray(mem.t.xyz)
                        cent = old.astype(np.float64)
                        sel = range(mem.n) if frames is None else frames
                        c2 = cent.copy()
                        for k in sel:
                            c2[k] = cent[k] - cent[k].mean(0)
                        scale = max(1.0, float(np.abs(old).max()))
                        if mem is m and mem is u:
                            c2 = cent - cent.mean(1)[:, None, :]
                        if not (_close(live, old, atol=1e-6 * scale) or _close(live, c2, atol=5e-5 * scale)):
                            # per-frame: each frame must be old or centred
                            okf = all(np.allclose(live[k], old[k], atol=1e-6 * scale) or
                                      np.allclose(live[k], cent[k] - cent[k].mean(0), atol=5e-5 * scale) for k in range(mem.n))
                            if not okf:
                                viol('rmsd', 'undocumented_mutation', {'member': mem.id}, stepno, flags)
                                break
                m.xyz = np.array(m.t.xyz, dtype=np.float32)
                u.xyz = np.array(u.t.xyz, dtype=np.float32)
            elif kind == 'save':
                fmt = op['fmt']
                flags = 'fmt=%s' % fmt
                before = snapshot_bytes(m)
                p = os.path.join(workdir, 's%d.%s' % (stepno, fmt))
                try:
                    t.save(p)
                except Exception as e:
                    res.log.append('%d save(%s) m%d raised %s' % (stepno, fmt, m.id, type(e).__name__))
                else:
                    res.log.append('%d save(%s) m%d' % (stepno, fmt, m.id))
                res.trace.append(('save', fmt, m.complete))
                if judge03 and snapshot_bytes(m) != before:
                    viol('save', 'input_mutated', {'member': m.id}, stepno, flags)
                    continue
            elif kind == 'save_load':
                fmt = op['fmt']
                if fmt == 'mdcrd' and m.xyz.shape[1] == 1:
                    fmt = 'nc'      # a one-atom mdcrd frame (3 numbers) is indistinguishable from a box line: format ambiguity
                flags = 'fmt=%s,cell=%s' % (fmt, 'complete' if m.complete else ('half' if (m.L is not None or m.A is not None) else 'none'))
                p = os.path.join(workdir, 'c%d.%s' % (stepno, fmt))
                ok = True
                ts = t
                msrc = m
                if fmt in ('rst7', 'ncrst') and m.n > 1 and op.get('all_frames') and not (fmt == 'rst7' and m.xyz.shape[1] == 2):
                    # several frames go to numbered files name.1 .. name.N (zero-padded): each must hold its own frame's cell
                    res.probe('restart_all_frames_saved')
                    bad = False
                    try:
                        t.save(p)
                    except Exception as e:
                        res.probe('save_refused:' + flags)
                        res.log.append('%d save_load(%s, all frames) m%d save raised %s' % (stepno, fmt, m.id, type(e).__name__))
                        res.trace.append(('save_load_all', fmt, m.complete, False))
                        continue
                    width = len(str(m.n))
                    loader = md.load_restrt if fmt == 'rst7' else md.load_ncrestrt
                    for fi in range(m.n):
                        pk = '%s.%0*d' % (p, width, fi + 1)
                        try:
                            r = loader(pk, top=t.topology)
                        except Exception as e:
                            if judge17 and m.complete:
                                viol('save_load', 'unloadable', {'file': os.path.basename(pk), 'error': '%s: %s' % (type(e).__name__, str(e)[:200])}, stepno, flags + ',numbered')
                            bad = True
                            break
                        if not judge_cell_completeness(r, m.complete, 'save_load', stepno, flags + ',numbered'):
                            bad = True
                            break
                        if judge17 and m.complete and (not np.allclose(r.unitcell_lengths[0], m.L[fi], rtol=2e-3, atol=2e-3)
                                                       or not np.allclose(r.unitcell_angles[0], m.A[fi], atol=5e-2)):
                            viol('save_load', 'cell_values', {'frame': fi, 'saved_L': m.L[fi].tolist(), 'loaded_L': r.unitcell_lengths[0].tolist(),
                                                              'saved_A': m.A[fi].tolist(), 'loaded_A': r.unitcell_angles[0].tolist()}, stepno, flags + ',numbered')
                            bad = True
                            break
                    res.log.append('%d save_load(%s, all %d frames) m%d' % (stepno, fmt, m.n, m.id))
                    res.trace.append(('save_load_all', fmt, m.complete, not bad))
                    continue
                if fmt in ('rst7', 'ncrst') and m.n > 1:
                    ts = t[0]          # restart files hold one frame (several frames go to numbered files)
                    msrc = Member(ts, m.xyz[:1], m.time[:1], None if m.L is None else m.L[:1], None if m.A is None else m.A[:1], m.labels)
                if op.get('few_atoms') and msrc.xyz.shape[1] > op['few_atoms'] and fmt not in ('pdb', 'gro', 'mdcrd'):
                    ts = ts.atom_slice(list(range(op['few_atoms'])))
                    res.probe('save_load_with_%d_atoms' % op['few_atoms'])
                if fmt == 'rst7' and ts.n_atoms == 2 and not _rst7_two_atom_cell_line_is_recognisable(msrc):
                    # a two-atom ASCII restart file is ambiguous by format: its 4th line is a cell or velocities, and the reader
                    # (documented in amberrst.py) takes it for a cell only if some number is >= 60 -- a 60-degree cell that went
                    # through float32 (59.99999) is legitimately read as velocities.  Same family as the one-atom mdcrd frame.
                    # Where the documented rule does say "cell" (a printed value of 60.0000000 or more) the file is judged as usual.
                    fmt = 'ncrst'
                    p = os.path.join(workdir, 'c%d.%s' % (stepno, fmt))
                    flags = flags.replace('fmt=rst7', 'fmt=ncrst')
                skw = {}
                if fmt == 'pdb':
                    skw = [{}, {}, {}, {'header': False}, {'ter': False}, {'bfactors': np.zeros(ts.n_atoms)}, {'header': False, 'ter': False},
                           {'header': False}][op.get('save_kw', 0) % 8]
                    if skw.get('header') is False and ts.n_frames > 1:
                        # without MODEL/ENDMDL records a file holds one frame
                        ts = ts[0]
                        msrc = Member(ts, msrc.xyz[:1], msrc.time[:1], None if msrc.L is None else msrc.L[:1], None if msrc.A is None else msrc.A[:1], msrc.labels)
                elif fmt == 'gro':
                    skw = [{}, {}, {'precision': 4}, {'precision': 6}][op.get('save_kw', 0) % 4]
                if skw:
                    res.probe('save_with_format_keywords:' + fmt)
                    flags += ',' + '+'.join(sorted(skw))
                try:
                    ts.save(p, **skw)
                except Exception as e:
                    ok = False
                    res.log.append('%d save_load(%s) m%d save raised %s' % (stepno, fmt, m.id, type(e).__name__))
                    res.probe('save_refused:' + flags)
                if ok:
                    if op.get('dialect') and fmt in ('dcd', 'trr', 'gro', 'nc'):
                        # the same values as another program stores them (simlib/foreign.py): opposite byte order, double precision
                        # with velocities and forces, velocity columns
                        from .. import foreign
                        if fmt == 'dcd':
                            foreign.dcd_swap_endianness(p)
                        elif fmt == 'trr':
                            foreign.trr_rewrite(p, stepno % 5 != 0, stepno % 2 == 0, stepno % 3 == 0, stepno,
                                                with_vir=stepno % 4 < 2, with_pres=stepno % 4 in (1, 3))
                        elif fmt == 'nc':
                            # AMBER's own layout, or coordinates and cell lengths stored packed (CF scale_factor)
                            if stepno % 2:
                                foreign.nc_pack_variables(p, [10.0, 8.0, 0.5][stepno % 3])
                            else:
                                foreign.nc_as_amber_writes(p, ['NETCDF3_64BIT_OFFSET', 'NETCDF4', 'NETCDF3_CLASSIC'][stepno % 3], True, stepno % 4 == 0, stepno)
                        else:
                            foreign.gro_add_velocities(p, stepno)
                        res.probe('save_load_through_foreign_dialect:' + fmt)
                        flags += ',dialect'
                    try:
                        r = md.load(p) if fmt in ('h5', 'pdb', 'gro') else md.load(p, top=ts.topology)
                    except Exception as e:
                        res.log.append('%d save_load(%s) load raised %s' % (stepno, fmt, type(e).__name__))
                        if judge17 and m.complete:
                            viol('save_load', 'unloadable', {'error': '%s: %s' % (type(e).__name__, str(e)[:200])}, stepno, flags)
                        continue
                    res.log.append('%d save_load(%s) m%d -> cell %s' % (stepno, fmt, m.id, r.unitcell_lengths is not None))
                    # a complete cell may come back exactly when one went in: a writer may refuse an incomplete (half-set) cell
                    # or write none, but the loaded trajectory must not have a cell the saved one did not have
                    if not judge_cell_completeness(r, m.complete, 'save_load', stepno, flags):
                        continue
                    if judge17 and m.complete and fmt not in ('pdb', 'mdcrd'):
                        if not np.allclose(r.unitcell_lengths, msrc.L, rtol=2e-3, atol=2e-3) or not np.allclose(r.unitcell_angles, msrc.A, atol=5e-2):
                            viol('save_load', 'cell_values', {'saved_L': msrc.L.tolist()[:2], 'loaded_L': r.unitcell_lengths.tolist()[:2],
                                                              'saved_A': msrc.A.tolist()[:2], 'loaded_A': r.unitcell_angles.tolist()[:2]}, stepno, flags)
                            continue
                res.trace.append(('save_load', fmt, m.complete))
            elif kind == 'analysis':
                what = op['what']
                flags = 'what=%s' % what
                r = np.random.RandomState(op['seed'])
                na = m.xyz.shape[1]
                before = snapshot_bytes(m)
                try:
                    if what == 'distances' and na >= 2:
                        md.compute_distances(t, r.randint(0, na, size=(4, 2)), periodic=bool(r.randint(2)) and m.complete)
                    elif what == 'displacements' and na >= 2:
                        md.compute_displacements(t, r.randint(0, na, size=(4, 2)), periodic=False)
                    elif what == 'angles' and na >= 3:
                        md.compute_angles(t, r.randint(0, na, size=(3, 3)), periodic=False)
                    elif what == 'dihedrals' and na >= 4:
                        md.compute_dihedrals(t, r.randint(0, na, size=(3, 4)), periodic=False)
                    elif what == 'rg':
                        md.compute_rg(t)
                    elif what == 'com':
                        md.compute_center_of_mass(t)
                    elif what == 'sasa':
                        # sasa.cpp calls exit() when two atoms coincide (e.g. after stacking a trajectory with itself)
                        x0 = m.xyz.astype(np.float64)
                        dmin = min(float((np.linalg.norm(x0[k][:, None] - x0[k][None], axis=2) + np.eye(na) * 9).min()) for k in range(m.n))
                        if dmin > 1e-3:
                            md.shrake_rupley(t)
                    elif what == 'dssp':
                        md.compute_dssp(t)
                    elif what == 'neighbors' and na >= 2:
                        md.compute_neighbors(t, 0.5, np.array([0]), periodic=False)
                    elif what == 'contacts':
                        md.compute_contacts(t, 'all', periodic=False)
                    elif what == 'inertia':
                        md.compute_inertia_tensor(t)
                    elif what == 'rmsd_ai' and na >= 3:
                        md.rmsd(t, t, 0, atom_indices=np.arange(min(3, na)))
                    elif what == 'drid':
                        md.compute_drid(t)
                    elif what == 'phi_psi':
                        md.compute_phi(t, periodic=False)
                        md.compute_psi(t, periodic=bool(r.randint(2)) and m.complete)
                    elif what == 'chi_omega':
                        md.compute_chi1(t, periodic=False)
                        md.compute_omega(t, periodic=False)
                    elif what == 'kabsch_sander':
                        md.kabsch_sander(t)
                    elif what == 'baker_hubbard':
                        md.baker_hubbard(t, periodic=bool(r.randint(2)) and m.complete)
                    elif what == 'wernet_nilsson':
                        md.wernet_nilsson(t, periodic=False)
                    elif what == 'gyration':
                        md.compute_gyration_tensor(t)
                    elif what == 'principal_moments':
                        md.principal_moments(t)
                    elif what == 'shape':
                        md.asphericity(t)
                        md.acylindricity(t)
                        md.relative_shape_antisotropy(t)
                    elif what == 'cog':
                        md.compute_center_of_geometry(t)
                    elif what == 'density' and m.complete:
                        md.density(t)
                    elif what == 'dipole':
                        md.geometry.dipole_moments(t, np.linspace(-0.5, 0.5, na))
                    elif what == 'nematic' and na >= 2:
                        md.compute_nematic_order(t, indices='residues')
                    elif what == 'neighborlist' and na >= 2:
                        md.compute_neighborlist(t, 0.4, frame=int(r.randint(m.n)), periodic=m.complete)
                    elif what == 'contacts_ca':
                        md.compute_contacts(t, 'all', scheme='ca', periodic=False)
                    elif what == 'closest_contact' and na >= 2:
                        md.geometry.distance.find_closest_contact(t, np.arange(na // 2), np.arange(na // 2, na), frame=int(r.randint(m.n)), periodic=False)
                    elif what == 'volumes':
                        t.unitcell_volumes
                        t.unitcell_vectors
                    elif what == 'distances_np_pbc' and na >= 2 and m.complete:
                        md.compute_distances(t, r.randint(0, na, size=(4, 2)), periodic=True, opt=False)
                    elif what == 'angles_pbc' and na >= 3 and m.complete:
                        md.compute_angles(t, r.randint(0, na, size=(3, 3)), periodic=True, opt=bool(r.randint(2)))
                    elif what == 'dihedrals_pbc' and na >= 4 and m.complete:
                        md.compute_dihedrals(t, r.randint(0, na, size=(3, 4)), periodic=True, opt=bool(r.randint(2)))
                    elif what == 'smooth' and m.n >= 4:
                        t.smooth(3, inplace=False)
                    elif what == 'image_molecules' and m.complete:
                        t.image_molecules(inplace=False)
                    elif what == 'whole' and m.complete:
                        t.make_molecules_whole(inplace=False)
                    elif what == 'rg_masses':
                        md.compute_rg(t, masses=np.array([a.element.mass for a in t.topology.atoms]))
                    elif what == 'copy_ops':
                        # results that are new objects by documentation
                        t.remove_solvent(inplace=False)
                        t.atom_slice(np.arange(0, na, 2), inplace=False)
                except Exception as e:
                    res.log.append('%d analysis(%s) raised %s' % (stepno, what, type(e).__name__))
                else:
                    res.log.append('%d analysis(%s) m%d' % (stepno, what, m.id))
                res.trace.append(('analysis', what))
                if judge03 and snapshot_bytes(m) != before:
                    viol('analysis', 'input_mutated', {'member': m.id, 'what': what}, stepno, flags)
                    continue
            elif kind == 'scribble':
                field = op['field']
                arr = {'xyz': t.xyz, 'time': t.time, 'L': t.unitcell_lengths, 'A': t.unitcell_angles}[field]
                if arr is None or not judge03:
                    continue
                flags = 'field=%s' % field
                saved = np.array(arr, copy=True)
                res.fault('scribble:' + field)
                arr[...] = arr + 1000.0
                leaked = None
                for x in pool:
                    if x is m:
                        continue
                    if field != 'xyz' and x.meta_group == m.meta_group:
                        continue      # stack may share time / cell arrays with its left operand (allowed by the statement)
                    bad = compare_member(x, cell=True)
                    if bad is not None:
                        leaked = (x.id, bad[0])
                        break
                arr[...] = saved
                res.log.append('%d scribble %s of m%d%s' % (stepno, field, m.id, '' if leaked is None else ' LEAKED'))
                res.trace.append(('scribble', field))
                if leaked is not None:
                    viol('scribble', 'propagated:' + leaked[1], {'scribbled_member': m.id, 'changed_member': leaked[0]}, stepno, flags)
                    continue
            elif kind == 'top_edit':
                if t.topology is None or t.topology.n_atoms == 0 or not judge03:
                    continue
                a0 = t.topology.atom(0)
                old = a0.name
                res.fault('topology_edit')
                a0.name = 'ZZ9'
                leaked = None
                for x in pool:
                    if x is m or x.t.topology is t.topology:
                        continue
                    if labels_of(x.t.topology) != x.labels:
                        leaked = x.id
                        break
                a0.name = old
                res.log.append('%d top_edit m%d%s' % (stepno, m.id, '' if leaked is None else ' LEAKED'))
                res.trace.append(('top_edit',))
                if leaked is not None:
                    viol('top_edit', 'propagated', {'edited_member': m.id, 'changed_member': leaked}, stepno, '')
                    continue
        except Exception as e:
            res.log.append('%d %s raised %s: %s' % (stepno, kind, type(e).__name__, str(e)[:80]))
            res.trace.append((kind, 'raise', type(e).__name__))
            cls = _classify_exception(kind, op, m, e)
            if cls == 'violation':
                viol(kind, 'raises:%s' % type(e).__name__, {'message': str(e)[:300]}, stepno, flags)
            else:
                res.probe('refused:%s:%s' % (kind, type(e).__name__))
            # the live object may or may not have changed: resync all models from the live objects
            for x in pool:
                _resync(x)
            continue
        if not check_pool(stepno, kind, flags):
            for x in pool:
                _resync(x)
        try:
            check_cell_semantics(stepno, kind, flags)
        except Exception as e:
            # the cell observers (unitcell_vectors / unitcell_volumes getters) must not raise on any reachable state
            if judge17:
                viol(kind, 'cell_observer_raises:%s' % type(e).__name__, {'message': str(e)[:200]}, stepno, flags)

    # ---- final sweep: cache coherence on every pool member through the public observable
    if judge03:
        for m in list(pool):
            if m.n == 0 or m.dirty:
                continue
            T0 = md.Trajectory(m.xyz.copy(), None)
            ref = md.rmsd(T0, T0, 0, parallel=False)
            cs = cache_state(m)
            try:
                got = md.rmsd(m.t, m.t, 0, precentered=True, parallel=False)
            except Exception as e:
                viol('final_rmsd', 'raises:%s' % type(e).__name__, {'message': str(e)[:200], 'cache': cs}, len(case['ops']), 'cache=%s' % cs)
                break
            if cs == 'set':
                res.probe('final_sweep_shortcut_taken')
            if np.asarray(got).shape != (m.n,) or (m.xyz.shape[1] >= 3 and not rmsd_agrees(got, ref, T0.xyz, T0.xyz[0])):
                viol('final_rmsd', 'differs_from_scratch', {'expected': np.asarray(ref).tolist()[:8], 'got': np.asarray(got).tolist()[:8],
                                                            'member': m.id}, len(case['ops']), 'cache=%s' % cs)
                break
    return res


def _classify_exception(kind, op, m, e):
    """an exception from an in-range API operation is a violation, except refusals the statement allows"""
    name = type(e).__name__
    if kind in ('join',) and isinstance(e, ValueError):
        return 'refusal'          # mixing complete/incomplete cells, topologies
    if kind in ('set_lengths', 'set_angles', 'set_vectors', 'set_vectors_rot', 'set_cell'):
        return 'violation'
    return 'violation'


def shrink_world(check, case):
    import copy
    if case['n_wat'] > 0:
        c = copy.deepcopy(case)
        c['n_wat'] = 0
        yield c
    if case['n_res'] > 1:
        c = copy.deepcopy(case)
        c['n_res'] = 1
        yield c
    if len(case['members']) > 1:
        c = copy.deepcopy(case)
        c['members'].pop()
        yield c
    for k, ms in enumerate(case['members']):
        for v in (1, 2, 3):
            if v < ms['n_frames']:
                c = copy.deepcopy(case)
                c['members'][k]['n_frames'] = v
                yield c
        if ms['cell'] is not None:
            c = copy.deepcopy(case)
            c['members'][k]['cell'] = None
            yield c
