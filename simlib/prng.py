"""SplitMix64 PRNG owned by the harness.  One integer decides everything.

No use of `random`, numpy global state, clocks, id() or hash order for decisions.
"""
import hashlib
import struct

MASK = (1 << 64) - 1


def mix64(z):
    z = (z + 0x9E3779B97F4A7C15) & MASK
    z = ((z ^ (z >> 30)) * 0xBF58476D1CE4E5B9) & MASK
    z = ((z ^ (z >> 27)) * 0x94D049BB133111EB) & MASK
    return z ^ (z >> 31)


def derive(*parts):
    """Deterministically derive a 64-bit seed from ints/strings."""
    h = hashlib.sha256()
    for p in parts:
        if isinstance(p, int):
            h.update(b'i' + struct.pack('<q', p if p < (1 << 63) else p - (1 << 64)))
        else:
            h.update(b's' + str(p).encode() + b'\0')
    return int.from_bytes(h.digest()[:8], 'little')


class Rng:
    __slots__ = ('s',)

    def __init__(self, seed):
        self.s = seed & MASK

    def u64(self):
        self.s = (self.s + 0x9E3779B97F4A7C15) & MASK
        z = self.s
        z = ((z ^ (z >> 30)) * 0xBF58476D1CE4E5B9) & MASK
        z = ((z ^ (z >> 27)) * 0x94D049BB133111EB) & MASK
        return z ^ (z >> 31)

    def below(self, n):
        """uniform int in [0, n)"""
        if n <= 0:
            raise ValueError('below(%r)' % (n,))
        return self.u64() % n

    def randint(self, lo, hi):
        """uniform int in [lo, hi] inclusive"""
        return lo + self.below(hi - lo + 1)

    def random(self):
        return (self.u64() >> 11) / float(1 << 53)

    def chance(self, p):
        return self.random() < p

    def choice(self, seq):
        return seq[self.below(len(seq))]

    def weighted(self, pairs):
        """pairs: list of (item, weight>=0); returns an item."""
        tot = 0.0
        for _, w in pairs:
            tot += w
        x = self.random() * tot
        acc = 0.0
        for it, w in pairs:
            acc += w
            if x < acc:
                return it
        return pairs[-1][0]

    def sample(self, seq, k):
        """k distinct elements, order of selection (not sorted)."""
        pool = list(seq)
        out = []
        for _ in range(min(k, len(pool))):
            out.append(pool.pop(self.below(len(pool))))
        return out

    def shuffle(self, lst):
        for i in range(len(lst) - 1, 0, -1):
            j = self.below(i + 1)
            lst[i], lst[j] = lst[j], lst[i]
        return lst

    def fork(self, *tag):
        return Rng(derive(self.u64(), *tag))

    def np_seed(self):
        return self.u64() & 0xFFFFFFFF
