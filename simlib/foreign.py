"""Files as *other* programs write them.

Every file the engines read is first written by mdtraj itself, which only ever produces one dialect of each format.  The
readers, however, are documented for the formats, and real inputs come from CHARMM/NAMD, GROMACS, LAMMPS, OpenBabel...  The
functions here rewrite an mdtraj-written file, value for value, into another legal dialect of the same format, so that the
reference model (the arrays the file was written from) stays valid:

  dcd_swap_endianness   the same DCD on a machine of the other byte order (the reader detects and swaps)
  dcd_fix_atoms         CHARMM/NAMD "fixed atoms" DCD: frames after the first store the free atoms only
  trr_rewrite           GROMACS double- (or single-) precision TRR whose frames also carry velocities and / or forces
  xyz_blank_comments    XYZ whose per-frame comment line is empty / blank (what most non-mdtraj writers emit)
  gro_add_velocities    GRO with the optional three velocity columns
  nc_as_amber_writes    AMBER NetCDF as sander/pmemd/cpptraj lay it out (variable order, velocities with scale_factor, temp0),
                        in the 64-bit-offset, classic or HDF5-based container

They are pure byte/line transformations (no mdtraj code involved) and deterministic.
"""
import gzip
import struct

import numpy as np


# ------------------------------------------------------------------ DCD

def _dcd_records(b, e='<'):
    """list of (payload offset, payload length) of the Fortran records of a 32-bit-marker DCD"""
    out = []
    off = 0
    while off < len(b):
        n, = struct.unpack(e + 'i', b[off:off + 4])
        n2, = struct.unpack(e + 'i', b[off + 4 + n:off + 8 + n])
        if n != n2 or n < 0:
            raise ValueError('not a 32-bit record-marker DCD at offset %d' % off)
        out.append((off + 4, n))
        off += n + 8
    return out


def _swap(buf, width):
    a = np.frombuffer(buf, dtype='V%d' % width)
    return np.frombuffer(buf, dtype=np.uint8).reshape(-1, width)[:, ::-1].tobytes() if len(a) else b''


def dcd_swap_endianness(path):
    """rewrite a little-endian CHARMM-style DCD (as mdtraj writes it) in big-endian byte order, in place"""
    with open(path, 'rb') as f:
        b = f.read()
    recs = _dcd_records(b)
    hdr = b[recs[0][0]:recs[0][0] + recs[0][1]]
    ints = struct.unpack('<20i', hdr[4:84])
    has_cell = ints[10] != 0
    out = bytearray()

    def rec(payload):
        out.extend(struct.pack('>i', len(payload)))
        out.extend(payload)
        out.extend(struct.pack('>i', len(payload)))

    rec(hdr[:4] + _swap(hdr[4:84], 4))                                   # 'CORD' + 20 four-byte fields (ints, one float)
    o, n = recs[1]
    rec(_swap(b[o:o + 4], 4) + b[o + 4:o + n])                           # title count + text
    o, n = recs[2]
    rec(_swap(b[o:o + n], 4))                                            # atom count
    k = 3
    if ints[8] != 0:
        o, n = recs[3]
        rec(_swap(b[o:o + n], 4))                                        # indices of the free atoms (fixed-atom files)
        k = 4
    while k < len(recs):
        if has_cell:
            o, n = recs[k]
            rec(_swap(b[o:o + n], 8))                                    # six doubles
            k += 1
        for _ in range(3):
            o, n = recs[k]
            rec(_swap(b[o:o + n], 4))
            k += 1
    with open(path, 'wb') as f:
        f.write(bytes(out))


def dcd_fix_atoms(path, fixed):
    """rewrite a DCD as a fixed-atom DCD: header field NAMNF = len(fixed), a record with the 1-based indices of the free
    atoms after the atom count, the first frame complete, every later frame holding the free atoms only.  The caller's model
    must keep the fixed atoms at their first-frame position in every frame (that is what such a file means)."""
    with open(path, 'rb') as f:
        b = f.read()
    recs = _dcd_records(b)
    hdr = bytearray(b[recs[0][0]:recs[0][0] + recs[0][1]])
    ints = list(struct.unpack('<20i', bytes(hdr[4:84])))
    has_cell = ints[10] != 0
    natoms, = struct.unpack('<i', b[recs[2][0]:recs[2][0] + 4])
    fixed = sorted(set(int(i) for i in fixed))
    free = [i for i in range(natoms) if i not in fixed]
    assert fixed and free
    ints[8] = len(fixed)
    hdr[4:84] = struct.pack('<20i', *ints)
    out = bytearray()

    def rec(payload):
        out.extend(struct.pack('<i', len(payload)))
        out.extend(payload)
        out.extend(struct.pack('<i', len(payload)))

    rec(bytes(hdr))
    rec(b[recs[1][0]:recs[1][0] + recs[1][1]])
    rec(b[recs[2][0]:recs[2][0] + recs[2][1]])
    rec(struct.pack('<%di' % len(free), *[i + 1 for i in free]))
    k = 3
    frame = 0
    while k < len(recs):
        if has_cell:
            o, n = recs[k]
            rec(b[o:o + n])
            k += 1
        for _ in range(3):
            o, n = recs[k]
            v = np.frombuffer(b[o:o + n], dtype='<f4')
            rec(v.tobytes() if frame == 0 else v[free].tobytes())
            k += 1
        frame += 1
    with open(path, 'wb') as f:
        f.write(bytes(out))


# ------------------------------------------------------------------ TRR

def _trr_frames(b):
    """parse a single-precision TRR without velocities/forces as written by mdtraj: list of dicts"""
    out = []
    off = 0
    while off < len(b):
        magic, slen = struct.unpack('>ii', b[off:off + 8])
        assert magic == 1993, 'TRR magic'
        off += 8
        sl, = struct.unpack('>i', b[off:off + 4])
        off += 4
        title = b[off:off + sl]
        off += (sl + 3) // 4 * 4
        h = struct.unpack('>13i', b[off:off + 52])
        off += 52
        ir, es, box_size, vir, pres, tops, syms, x_size, v_size, f_size, natoms, step, nre = h
        assert v_size == 0 and f_size == 0 and vir == 0 and pres == 0 and x_size == natoms * 12, 'unexpected TRR dialect'
        t, lam = struct.unpack('>ff', b[off:off + 8])
        off += 8
        box = None
        if box_size:
            box = np.frombuffer(b[off:off + 36], dtype='>f4').astype(np.float64)
            off += 36
        x = np.frombuffer(b[off:off + x_size], dtype='>f4').astype(np.float64)
        off += x_size
        out.append({'slen': slen, 'title': title, 'natoms': natoms, 'step': step, 'nre': nre, 't': t, 'lam': lam, 'box': box, 'x': x})
    return out


def trr_rewrite(path, double=True, with_v=True, with_f=True, seed=0, with_vir=False, with_pres=False):
    """rewrite a TRR in GROMACS double precision (a -double build) or keep single precision, each frame also carrying
    velocities and / or forces (what mdrun writes with nstvout / nstfout) and / or the virial and pressure tensors"""
    with open(path, 'rb') as f:
        b = f.read()
    frames = _trr_frames(b)
    r = np.random.RandomState(seed & 0x7FFFFFFF)
    out = bytearray()
    for fr in frames:
        n = fr['natoms']
        out.extend(struct.pack('>ii', 1993, fr['slen']))
        out.extend(struct.pack('>i', len(fr['title'])))
        out.extend(fr['title'] + b'\0' * (-len(fr['title']) % 4))
        w = 8 if double else 4
        ft = '>f8' if double else '>f4'
        out.extend(struct.pack('>13i', 0, 0, 9 * w if fr['box'] is not None else 0, 9 * w if with_vir else 0, 9 * w if with_pres else 0, 0, 0, n * 3 * w,
                               n * 3 * w if with_v else 0, n * 3 * w if with_f else 0, n, fr['step'], fr['nre']))
        out.extend(struct.pack('>dd' if double else '>ff', float(fr['t']), float(fr['lam'])))
        if fr['box'] is not None:
            out.extend(fr['box'].astype(ft).tobytes())
        if with_vir:
            out.extend(r.uniform(-300, 300, size=9).astype(ft).tobytes())       # virial and pressure tensors (energy steps of mdrun)
        if with_pres:
            out.extend(r.uniform(-100, 100, size=9).astype(ft).tobytes())
        out.extend(fr['x'].astype(ft).tobytes())
        if with_v:
            out.extend(r.uniform(-1, 1, size=n * 3).astype(ft).tobytes())
        if with_f:
            out.extend(r.uniform(-500, 500, size=n * 3).astype(ft).tobytes())
    with open(path, 'wb') as f:
        f.write(bytes(out))


# ------------------------------------------------------------------ text formats

def _read_text(path):
    if path.endswith('.gz'):
        with gzip.open(path, 'rt') as f:
            return f.read().splitlines(True)
    with open(path, 'r') as f:
        return f.read().splitlines(True)


def _write_text(path, lines):
    if path.endswith('.gz'):
        with gzip.GzipFile(path, 'wb', mtime=0) as f:
            f.write(''.join(lines).encode())
    else:
        with open(path, 'w') as f:
            f.write(''.join(lines))


def xyz_blank_comments(path, how='empty'):
    """the comment line (2nd line of every frame) of an XYZ file made empty or blank"""
    lines = _read_text(path)
    n = int(lines[0])
    for k in range(1, len(lines), n + 2):
        lines[k] = '\n' if how == 'empty' else '   \n'
    _write_text(path, lines)


def gro_add_velocities(path, seed=0):
    """the optional velocity columns (3 x %8.4f) appended to every atom line of a GRO file"""
    lines = _read_text(path)
    r = np.random.RandomState(seed & 0x7FFFFFFF)
    out = []
    k = 0
    while k < len(lines):
        out.append(lines[k])
        n = int(lines[k + 1])
        out.append(lines[k + 1])
        for j in range(n):
            v = r.uniform(-2, 2, size=3)
            out.append(lines[k + 2 + j].rstrip('\n') + '%8.4f%8.4f%8.4f\n' % tuple(v))
        out.append(lines[k + 2 + n])
        k += n + 3
    _write_text(path, out)


# ------------------------------------------------------------------ NetCDF (AMBER convention)

def nc_as_amber_writes(path, data_model='NETCDF3_64BIT_OFFSET', with_velocities=True, with_remd=False, seed=0):
    """the same AMBER-convention trajectory as sander/pmemd/cpptraj would lay it out: variables created in AMBER's order
    (spatial, time, coordinates, cell_*, then velocities with their scale_factor and, for replica exchange, temp0), program
    attributes of another writer, optionally the classic or the HDF5-based (NETCDF4) container"""
    import sys
    hidden = 'netCDF4' in sys.modules and sys.modules['netCDF4'] is None      # the engine hides the library to select scipy's reader
    if hidden:
        del sys.modules['netCDF4']
    try:
        import netCDF4
    finally:
        if hidden:
            sys.modules['netCDF4'] = None
    src = netCDF4.Dataset(path)
    n_frames = len(src.dimensions['frame'])
    n_atoms = len(src.dimensions['atom'])
    data = {k: np.array(v[:]) for k, v in src.variables.items()}
    has_cell = 'cell_lengths' in data
    has_time = 'time' in data
    src.close()
    r = np.random.RandomState(seed & 0x7FFFFFFF)
    out = netCDF4.Dataset(path, 'w', format=data_model)
    out.Conventions = 'AMBER'
    out.ConventionVersion = '1.0'
    out.application = 'AMBER'
    out.program = 'pmemd'
    out.programVersion = '20.0'
    out.title = 'default_name'
    out.createDimension('frame', None)
    out.createDimension('spatial', 3)
    out.createDimension('atom', n_atoms)
    if has_cell:
        out.createDimension('cell_spatial', 3)
        out.createDimension('label', 5)
        out.createDimension('cell_angular', 3)
    v = out.createVariable('spatial', 'S1', ('spatial',))
    v[:] = np.array(list('xyz'), dtype='S1')
    if has_time:
        v = out.createVariable('time', 'f4', ('frame',))
        v.units = 'picosecond'
    c = out.createVariable('coordinates', 'f4', ('frame', 'atom', 'spatial'))
    c.units = 'angstrom'
    if has_cell:
        v = out.createVariable('cell_spatial', 'S1', ('cell_spatial',))
        v[:] = np.array(list('abc'), dtype='S1')
        v = out.createVariable('cell_angular', 'S1', ('cell_angular', 'label'))
        v[:] = np.array([list('alpha'), list('beta '), list('gamma')], dtype='S1')
        cl = out.createVariable('cell_lengths', 'f8', ('frame', 'cell_spatial'))
        cl.units = 'angstrom'
        ca = out.createVariable('cell_angles', 'f8', ('frame', 'cell_angular'))
        ca.units = 'degree'
    if with_velocities:
        vel = out.createVariable('velocities', 'f4', ('frame', 'atom', 'spatial'))
        vel.units = 'angstrom/picosecond'
        vel.scale_factor = 20.455
    if with_remd:
        t0 = out.createVariable('temp0', 'f8', ('frame',))
        t0.units = 'kelvin'
    out.set_auto_maskandscale(False)
    for k in range(n_frames):
        if has_time:
            out.variables['time'][k] = data['time'][k]
        c[k] = data['coordinates'][k]
        if has_cell:
            cl[k] = data['cell_lengths'][k]
            ca[k] = data['cell_angles'][k]
        if with_velocities:
            vel[k] = r.uniform(-1, 1, size=(n_atoms, 3)).astype(np.float32)
        if with_remd:
            t0[k] = 300.0 + k
    out.close()


def dcd_set_header_count(path, count):
    """the frame counter of the DCD header (NSET) set to `count`: 0 is what a writer that was killed before it closed the
    file leaves behind (CHARMM, NAMD and OpenMM update the counter late or only at the end); readers are expected to go
    by the file size.  Little-endian files only."""
    with open(path, 'r+b') as f:
        f.seek(8)
        f.write(struct.pack('<i', int(count)))


def nc_pack_variables(path, factor=10.0):
    """coordinates and cell_lengths stored packed (value / factor, with the CF `scale_factor` attribute = factor) in a
    netCDF4-library file: legal NetCDF that the netCDF4 reader unpacks on access.  In place."""
    import sys
    hidden = 'netCDF4' in sys.modules and sys.modules['netCDF4'] is None
    if hidden:
        del sys.modules['netCDF4']
    try:
        import netCDF4
    finally:
        if hidden:
            sys.modules['netCDF4'] = None
    src = netCDF4.Dataset(path)
    dims = {k: (None if v.isunlimited() else len(v)) for k, v in src.dimensions.items()}
    attrs = {a: src.getncattr(a) for a in src.ncattrs()}
    vs = []
    for k, v in src.variables.items():
        vs.append((k, v.dtype, v.dimensions, {a: v.getncattr(a) for a in v.ncattrs()}, np.array(v[:])))
    fmt = src.data_model
    src.close()
    out = netCDF4.Dataset(path, 'w', format=fmt)
    for a, val in attrs.items():
        out.setncattr(a, val)
    for k, n in dims.items():
        out.createDimension(k, n)
    for k, dt, dm, at, data in vs:
        v = out.createVariable(k, dt, dm)
        for a, val in at.items():
            v.setncattr(a, val)
        v.set_auto_maskandscale(False)
        if k in ('coordinates', 'cell_lengths'):
            v.scale_factor = float(factor)
            v[:] = (data.astype(np.float64) / factor).astype(dt)
        else:
            v[:] = data
    out.close()
