"""Format table and tagged test trajectories shared by the file engines (E1, E2, E3).

A *tagged trajectory* makes every frame attributable: frame i has x-coordinates shifted by
0.1 nm * (i+1), far above the coarsest format precision (1e-3 nm), and a distinct time and cell.
"""
import numpy as np

# ext -> adapter.  unit: factor that converts what read() returns into nm.
#   fields: index of (time, lengths, angles, box-vectors) in the tuple returned by read(), or None
FORMATS = {
    'xtc':       dict(ext='.xtc', unit=1.0, time=1, box=3, lengths=None, angles=None, cell=True, has_time=True,
                      length=True, flush=True, tol=2.5e-3),
    'trr':       dict(ext='.trr', unit=1.0, time=1, box=3, lengths=None, angles=None, cell=True, has_time=True,
                      length=True, flush=False, tol=1e-5),
    'dcd':       dict(ext='.dcd', unit=0.1, time=None, box=None, lengths=1, angles=2, cell=True, has_time=False,
                      length=True, flush=False, tol=1e-5),
    'h5':        dict(ext='.h5', unit=1.0, time='time', box=None, lengths='cell_lengths', angles='cell_angles',
                      cell=True, has_time=True, length=True, flush=True, tol=1e-5),
    'nc':        dict(ext='.nc', unit=0.1, time=1, box=None, lengths=2, angles=3, cell=True, has_time=True,
                      length=True, flush=True, tol=1e-5),
    'mdcrd':     dict(ext='.mdcrd', unit=0.1, time=None, box=None, lengths=1, angles=None, cell='ortho',
                      has_time=False, length=False, flush=False, tol=2e-4),
    'xyz':       dict(ext='.xyz', unit=0.1, time=None, box=None, lengths=None, angles=None, cell=False,
                      has_time=False, length=True, flush=False, tol=2e-4),
    'lammpstrj': dict(ext='.lammpstrj', unit=0.1, time=None, box=None, lengths=1, angles=2, cell='required',
                      has_time=False, length=False, flush=False, tol=2e-4),
    'dtr':       dict(ext='.dtr', unit=0.1, time=1, box=None, lengths=2, angles=3, cell='required', has_time=True,
                      length=True, flush=False, tol=1e-5),
    'gro':       dict(ext='.gro', unit=1.0, time=1, box=2, lengths=None, angles=None, cell=True, has_time=True,
                      length=False, flush=False, tol=2e-3),
    'pdb':       dict(ext='.pdb', unit=0.1, cell=True, has_time=False, tol=2e-4),
    # single-frame restart files: readable through md.load / md.load_frame / md.iterload like any other format (no cursor)
    'rst7':      dict(ext='.rst7', unit=0.1, cell=True, has_time=True, tol=2e-5),
    'ncrst':     dict(ext='.ncrst', unit=0.1, cell=True, has_time=True, tol=1e-5),
    # read-only fixture format (no writer exists): sequential read(n)/read() only; seek, tell and len raise NotImplementedError
    'arc':       dict(ext='.arc', unit=1.0, time=None, box=None, lengths=None, angles=None, cell=False, has_time=False,
                      length=False, flush=False, tol=0.0),
}
ARC_FIXTURES = {'nitrogen.arc': (50, 212), '4waters.arc': (1, 12)}

CURSOR_FORMATS = ['h5', 'xtc', 'trr', 'dcd', 'nc', 'mdcrd', 'xyz', 'lammpstrj', 'dtr']

RESNAMES = ['ALA', 'GLY', 'SER', 'VAL', 'LEU']
ELEMS = ['C', 'N', 'O', 'H', 'S']


def make_topology(n_atoms, residue_size=3):
    import mdtraj as md
    from mdtraj.core import element as elem
    top = md.Topology()
    ch = top.add_chain()
    res = None
    prev = None
    for a in range(n_atoms):
        if a % residue_size == 0:
            res = top.add_residue(RESNAMES[(a // residue_size) % len(RESNAMES)], ch, resSeq=a // residue_size + 1)
        e = ELEMS[a % len(ELEMS)]
        at = top.add_atom('%s%d' % (e, a % residue_size + 1), elem.get_by_symbol(e), res)
        if prev is not None and a % residue_size != 0:
            top.add_bond(prev, at)
        prev = at
    return top


def tagged_arrays(n_frames, n_atoms, cell, seed=0, origin=(0.0, 0.0, 0.0)):
    """xyz (nm), time (ps), lengths (nm), angles (deg).  cell in {None,'ortho','tric','mixed'}."""
    i = np.arange(n_frames, dtype=np.float64)[:, None]
    a = np.arange(n_atoms, dtype=np.float64)[None, :]
    r = np.random.RandomState(seed & 0x7FFFFFFF)
    jit = r.uniform(-0.004, 0.004, size=(n_frames, n_atoms, 3))
    x = 0.1 * (i + 1) + 0.013 * a
    y = 0.5 + 0.011 * a + 0.05 * ((i * 7) % 11)
    z = 1.0 + 0.007 * a * ((i % 3) + 1)
    xyz = np.stack([x + 0 * a, y, z], axis=2) + jit + np.asarray(origin, dtype=np.float64)
    xyz = np.round(xyz, 3).astype(np.float32)          # representable at every format's precision
    time = (np.arange(n_frames) * 2.0 + 0.5 * (np.arange(n_frames) % 3)).astype(np.float32)
    if cell is None:
        return xyz, time, None, None
    L = np.empty((n_frames, 3), dtype=np.float32)
    L[:, 0] = 8.0 + 0.1 * np.arange(n_frames)
    L[:, 1] = 9.0 + 0.05 * np.arange(n_frames)
    L[:, 2] = 10.0 + 0.025 * np.arange(n_frames)
    if cell == 'ortho':
        A = np.full((n_frames, 3), 90.0, dtype=np.float32)
    else:
        A = np.empty((n_frames, 3), dtype=np.float32)
        A[:, 0] = 80.0 + 0.5 * (np.arange(n_frames) % 5)
        A[:, 1] = 95.0
        A[:, 2] = 100.0 - 0.5 * (np.arange(n_frames) % 4)
        if cell == 'mixed':
            # some frames orthorhombic, some triclinic (a box that starts rectangular and is then sheared)
            # (own stream: frame k's kind must not depend on how many frames or atoms are generated)
            rect = np.random.RandomState((seed ^ 0x5bd1e995) & 0x7FFFFFFF).uniform(size=n_frames) < 0.5
            if n_frames and seed % 2 == 0:
                rect[0] = True
            A[rect] = 90.0
    return xyz, time, L, A


def make_traj(n_frames, n_atoms, cell, seed=0, origin=(0.0, 0.0, 0.0)):
    import mdtraj as md
    xyz, time, L, A = tagged_arrays(n_frames, n_atoms, cell, seed, origin)
    top = make_topology(n_atoms)
    t = md.Trajectory(xyz.copy(), top, time=time.copy(),
                      unitcell_lengths=None if L is None else L.copy(),
                      unitcell_angles=None if A is None else A.copy())
    return t


def cell_for(fmt, want):
    """map requested cell kind to what the format can carry"""
    c = FORMATS[fmt]['cell']
    if c is False:
        return None
    if c == 'ortho':
        return 'ortho' if want else None
    if c == 'required':
        return want or 'ortho'
    return want


def open_kwargs(fmt, n_atoms):
    if fmt == 'mdcrd':
        return {'n_atoms': n_atoms}
    return {}


def result_parts(fmt, res):
    """normalise what handle.read() returned -> dict(xyz nm, time, lengths nm, angles)"""
    F = FORMATS[fmt]
    # "nothing left" conventions: [] (h5), np.array([]) (nc), tuples whose first member is empty
    if isinstance(res, list) and len(res) == 0:
        return {'xyz': np.zeros((0, 0, 3)), 'time': None, 'lengths': None, 'angles': None, 'empty_form': 'list'}
    if fmt == 'h5':
        xyz = np.asarray(res.coordinates)
        out = {'xyz': xyz, 'time': res.time, 'lengths': res.cell_lengths, 'angles': res.cell_angles}
        return out
    if fmt == 'xyz':
        return {'xyz': np.asarray(res) * F['unit'], 'time': None, 'lengths': None, 'angles': None}
    xyz = np.asarray(res[0]) * F['unit']
    out = {'xyz': xyz, 'time': None, 'lengths': None, 'angles': None}
    if F.get('time') is not None:
        out['time'] = res[F['time']]
    if F.get('lengths') is not None:
        L = res[F['lengths']]
        out['lengths'] = None if L is None else np.asarray(L) * F['unit']
    if F.get('angles') is not None:
        out['angles'] = res[F['angles']]
    if F.get('box') is not None:
        out['box'] = res[F['box']]
    return out
