"""Driver side: build overlay, shard runs over fresh worker interpreters, re-check determinism,
classify violations against known findings, confirm by fresh-process replay, write evidence."""
import argparse
import atexit
import fnmatch
import hashlib
import json
import os
import re
import shutil
import signal
import subprocess
import sys
import time

from . import build
from .core import ENGINE_OF, run_seed
from .prng import derive

VERIF = os.path.dirname(os.path.dirname(os.path.abspath(__file__)))
PY = '/venv/bin/python'
WORKER = os.path.join(VERIF, 'bin', 'vworker')
DEFAULT_SEED = 20261003

# check -> build needs, run counts (quick, thorough), per-run cap
CHECKS = {
    'C18': dict(exts=build.FORMAT_EXTS, runs=(32000, 600000), cap=60),
    'C02': dict(exts=build.FORMAT_EXTS, runs=(12000, 200000), cap=60),
    'C19': dict(exts=build.FORMAT_EXTS, runs=(16000, 300000), cap=60),
    'C20': dict(exts=build.FORMAT_EXTS, runs=(10000, 200000), cap=60, sim_clock=True),
    'C03': dict(exts=build.ALL_EXTS, runs=(20000, 400000), cap=60),
    'C17': dict(exts=build.ALL_EXTS, runs=(12000, 250000), cap=60),
    'C04': dict(exts=[], runs=(20000, 400000), cap=60),
    'C08': dict(exts=build.ALL_EXTS, runs=(1600, 30000), cap=120, sim_omp=True),
}

_cleanup_dirs = []


def _cleanup():
    for d in _cleanup_dirs:
        shutil.rmtree(d, ignore_errors=True)


def _on_signal(signum, frame):
    _cleanup()
    sys.stderr.write('vcheck: killed by signal %d\n' % signum)
    os._exit(2)


def make_scratch(tag):
    root = build.scratch_root()
    d = os.path.join(root, 'verif-%s-%d-%d' % (tag, os.getpid(), int(time.time())))
    os.makedirs(d)
    _cleanup_dirs.append(d)
    return d


def worker_env(overlay, hashseed='0', pyopt=False):
    env = dict(os.environ)
    env['PYTHONPATH'] = overlay + os.pathsep + VERIF
    env['PYTHONHASHSEED'] = str(hashseed)
    for k in ('OMP_NUM_THREADS', 'OPENBLAS_NUM_THREADS', 'MKL_NUM_THREADS', 'NUMEXPR_NUM_THREADS'):
        env[k] = '1'
    env['PYTHONDONTWRITEBYTECODE'] = '1'
    env['HDF5_USE_FILE_LOCKING'] = 'FALSE'
    env['TZ'] = 'UTC'
    env.pop('PYTHONSTARTUP', None)
    env.pop('PYTHONOPTIMIZE', None)
    if pyopt:
        env['PYTHONOPTIMIZE'] = '1'        # assertions stripped, as under `python -O`
    return env


def spawn(spec, overlay, hashseed='0', cwd=None, env_extra=None):
    os.makedirs(spec['scratch'], exist_ok=True)
    sp = spec['out'] + '.spec.json'
    with open(sp, 'w') as f:
        json.dump(spec, f)
    log = open(spec['out'] + '.stderr', 'w')
    env = worker_env(overlay, hashseed, pyopt=bool(spec.get('pyopt')))
    env.update(env_extra or {})
    p = subprocess.Popen([PY, WORKER, sp], env=env, stdout=log, stderr=log,
                         cwd=cwd or spec['scratch'])
    p._spec = spec
    p._log = log
    return p


def wait_all(procs, timeout_s):
    t0 = time.time()
    pending = list(procs)
    while pending:
        for p in list(pending):
            if p.poll() is not None:
                pending.remove(p)
        if not pending:
            break
        if time.time() - t0 > timeout_s:
            for p in pending:
                try:
                    p.kill()
                except OSError:
                    pass
            for p in pending:
                p.wait()
            return [p for p in pending]
        time.sleep(0.05)
    return []


def pyopt_of(run_index):
    """one run in eight executes in an interpreter with assertions stripped (python -O): an environment a user can be in"""
    return run_index % 8 == 7


def load_known(check):
    p = os.path.join(VERIF, 'known_findings.json')
    if not os.path.exists(p):
        return []
    data = json.load(open(p))
    return [e for e in data.get('findings', []) if e.get('property') == check]


def match_known(sig, known):
    for e in known:
        if e.get('status') != 'open':
            continue
        pat = e['signature']
        if pat == sig or fnmatch.fnmatchcase(sig, pat):
            return e
    return None


def slug(s):
    return re.sub(r'[^A-Za-z0-9_.=+-]+', '_', s)[:110]


def run_replay(check, case, overlay, scratch, conf, timeout_s=300, hashseed='0', extra=None, prior=None, prior_seed=0, prior_tier='quick', pyopt=False):
    out = os.path.join(scratch, 'replay-%d.json' % int(time.time() * 1000))
    spec = {'check': check, 'tier': 'quick', 'seed': 0, 'mode': 'replay', 'case': case, 'out': out,
            'scratch': os.path.join(scratch, 'rp%d' % (int(time.time() * 1000) % 100000)),
            'prior': prior or [], 'prior_seed': prior_seed, 'prior_tier': prior_tier, 'pyopt': bool(pyopt)}
    spec.update(extra or {})
    p = spawn(spec, overlay, hashseed)
    hung = wait_all([p], timeout_s)
    if hung:
        return {'hang': True, 'violations': [], 'digest': None}
    if p.returncode != 0 or not os.path.exists(out):
        err = open(out + '.stderr').read()[-3000:] if os.path.exists(out + '.stderr') else ''
        return {'crash': True, 'returncode': p.returncode, 'stderr': err, 'violations': [], 'digest': None}
    return json.load(open(out))


def main(argv=None):
    ap = argparse.ArgumentParser(prog='vcheck')
    ap.add_argument('check')
    ap.add_argument('--tier', default=os.environ.get('VERIF_TIER', 'quick'), choices=['quick', 'thorough'])
    ap.add_argument('--replay')
    ap.add_argument('--runs', type=int, default=int(os.environ.get('VERIF_RUNS', '0')))
    ap.add_argument('--workers', type=int, default=int(os.environ.get('VERIF_WORKERS', '0')))
    ap.add_argument('--seed', type=int, default=None)
    ap.add_argument('--no-evidence', action='store_true')
    ap.add_argument('--keep', action='store_true')
    ap.add_argument('--start', type=int, default=0, help='first run index')
    ap.add_argument('--digests-out', help='write {run index: step-log digest} as json (determinism self-test)')
    args = ap.parse_args(argv)
    check = args.check
    if check not in CHECKS:
        sys.stderr.write('unknown check %s\n' % check)
        return 2
    conf = CHECKS[check]
    seed = args.seed if args.seed is not None else int(os.environ.get('VERIF_SEED', DEFAULT_SEED))
    t0 = time.time()
    atexit.register(_cleanup)
    signal.signal(signal.SIGTERM, _on_signal)
    signal.signal(signal.SIGINT, _on_signal)
    scratch = make_scratch(check)
    if args.keep:
        _cleanup_dirs.remove(scratch)
    overlay = os.path.join(scratch, 'overlay')
    print('vcheck %s tier=%s VERIF_SEED=%d' % (check, args.tier, seed))
    sys.stdout.flush()
    try:
        binfo = build.build_overlay(overlay, exts=conf['exts'], sim_omp=conf.get('sim_omp', False),
                                    sim_clock=conf.get('sim_clock', False))
    except build.BuildError as e:
        print('HARNESS-ERROR: cannot build overlay from /repo working tree: %s' % e)
        return 2
    t_build = time.time() - t0
    print('overlay built in %.1fs (rebuilt %d extension modules from the working tree%s)' % (
        t_build, len(binfo['rebuilt']), ', simulated OpenMP runtime' if binfo['sim_omp'] else ''))
    sys.stdout.flush()
    extra_spec = {'sim_omp': bool(conf.get('sim_omp')), 'sim_clock': bool(conf.get('sim_clock')), 'verif': VERIF,
                  'known_patterns': [e['signature'] for e in load_known(check) if e.get('status') == 'open']}

    if args.replay:
        rp = json.load(open(args.replay))
        if rp.get('signature', '').endswith('|process|cross_history_state'):
            dt = rp['detail']
            ra = run_replay(check, rp['case'], overlay, scratch, conf, extra=extra_spec, timeout_s=900, prior=dt['prior_A_run_indices'],
                            prior_seed=rp.get('verif_seed', 0), prior_tier=rp.get('tier', 'quick'), pyopt=rp.get('pyopt', False))
            rb = run_replay(check, rp['case'], overlay, scratch, conf, extra=extra_spec, timeout_s=900, prior=dt['prior_B_run_indices'],
                            prior_seed=rp.get('verif_seed', 0), prior_tier=rp.get('tier', 'quick'), pyopt=rp.get('pyopt', False))
            print('digest after prior histories A: %s (recorded %s); after B: %s (recorded %s)' % (
                ra.get('digest'), dt['digest_after_prior_A'], rb.get('digest'), dt['digest_after_prior_B']))
            if ra.get('digest') and rb.get('digest') and ra.get('digest') != rb.get('digest'):
                print('reproduced: the same history behaves differently after different earlier histories in the same interpreter')
                print('VIOLATION property=%s replay=%s' % (check, args.replay))
                return 1
            print('replay did not reproduce a dependence on earlier histories')
            return 0
        r = run_replay(check, rp['case'], overlay, scratch, conf, extra=extra_spec, timeout_s=900, prior=rp.get('prior_run_indices'),
                       prior_seed=rp.get('verif_seed', 0), prior_tier=rp.get('tier', 'quick'), pyopt=rp.get('pyopt', False))
        sigs = [v['signature'] for v in r.get('violations', [])]
        if r.get('hang') or r.get('crash'):
            print('replay: worker %s' % ('hung' if r.get('hang') else 'crashed: ' + r.get('stderr', '')[-500:]))
            if rp.get('signature', '').endswith('|hang') and r.get('hang'):
                print('VIOLATION property=%s replay=%s' % (check, args.replay))
                return 1
            return 2
        if rp.get('signature') in sigs:
            v = [x for x in r['violations'] if x['signature'] == rp['signature']][0]
            print('reproduced: %s' % rp['signature'])
            print('  detail: %s' % json.dumps(v['detail'])[:600])
            print('  digest: %s (recorded %s)' % (r['digest'], rp.get('digest')))
            print('VIOLATION property=%s replay=%s' % (check, args.replay))
            return 1
        print('replay did not reproduce %s; observed signatures: %s' % (rp.get('signature'), sigs))
        return 0

    tier_i = 0 if args.tier == 'quick' else 1
    nruns = args.runs or conf['runs'][tier_i]
    W = args.workers or min(16, os.cpu_count() or 4)
    W = max(1, min(W, nruns))
    cap = conf['cap']
    batch_timeout = 900 if args.tier == 'quick' else 4 * 3600
    deadline = 420 if args.tier == 'quick' else 3 * 3600
    harness_errors = []
    hang_cases = []
    results = []
    # dynamic pool of fresh worker interpreters over statically defined batches; a batch whose worker
    # dies or hangs is re-queued without the run it died on (that run is classified separately below)
    nb = max(1, min(W * 4, nruns // 25 or 1))
    if nb < W:
        nb = W
    nb = ((nb + 7) // 8) * 8        # all run indices of a batch share index % 8, hence the interpreter mode (pyopt_of)
    queue = []
    for b in range(nb):
        idx = list(range(args.start + b, args.start + nruns, nb))
        if idx:
            queue.append(idx)
    running = []
    seq = [0]
    t_pool = time.time()
    max_crashes = 24

    def start(idx):
        seq[0] += 1
        spec = {'check': check, 'tier': args.tier, 'seed': seed, 'indices': idx,
                'out': os.path.join(scratch, 'b%04d.json' % seq[0]), 'scratch': os.path.join(scratch, 'b%04d' % seq[0]),
                'per_run_cap_s': cap, 'deadline_s': deadline}
        spec.update(extra_spec)
        spec['pyopt'] = bool(os.environ.get('VERIF_FORCE_PYOPT')) or pyopt_of(idx[0])
        p = spawn(spec, overlay)
        p._t0 = time.time()
        return p

    while queue or running:
        while queue and len(running) < W:
            running.append(start(queue.pop(0)))
        time.sleep(0.02)
        for p in list(running):
            rc = p.poll()
            timed_out = rc is None and (time.time() - t_pool > batch_timeout)
            if rc is None and not timed_out:
                continue
            if timed_out:
                try:
                    p.kill()
                except OSError:
                    pass
                p.wait()
            running.remove(p)
            outp = p._spec['out']
            if (not timed_out) and p.returncode == 0 and os.path.exists(outp):
                results.append(json.load(open(outp)))
                shutil.rmtree(p._spec['scratch'], ignore_errors=True)
                continue
            cur = None
            try:
                cur = int(open(outp + '.progress').read().strip())
            except Exception:
                pass
            err = ''
            try:
                err = open(outp + '.stderr').read()[-2500:]
            except Exception:
                pass
            hang_cases.append({'run_index': cur, 'returncode': p.returncode, 'stderr': err, 'hung': timed_out})
            shutil.rmtree(p._spec['scratch'], ignore_errors=True)
            if cur is not None and len(hang_cases) <= max_crashes and not timed_out:
                rest = [i for i in p._spec['indices'] if i != cur]
                if rest:
                    queue.append(rest)

    # aggregate
    agg = {'runs': 0, 'steps': 0, 'probes': {}, 'faults': {}, 'not_offered': {}, 'extra': {}}
    digests = {}
    traces = set()
    transitions = set()
    viol = {}
    vcount = {}
    samples = []
    for r in results:
        agg['runs'] += r['runs']
        agg['steps'] += r['steps']
        for key in ('probes', 'faults', 'not_offered', 'extra'):
            for k, v in r[key].items():
                if isinstance(v, bool):
                    agg[key][k] = agg[key].get(k, False) or v
                else:
                    agg[key][k] = agg[key].get(k, 0) + v
        digests.update(r['digests'])
        traces.update(r['traces'])
        transitions.update(r['transitions'])
        for s, v in r['violations'].items():
            if s not in viol or v['run_index'] < viol[s]['run_index']:
                viol[s] = v
        for s, c in r['violation_counts'].items():
            vcount[s] = vcount.get(s, 0) + c
        samples.extend(r['samples'])
        harness_errors.extend(r['harness_errors'])
    samples.sort(key=lambda s: s['run_index'])
    samples = samples[:3]

    if args.digests_out:
        with open(args.digests_out, 'w') as f:
            json.dump(digests, f)

    # a worker that died or hung: re-run the run it was on, alone, to classify
    exit_code = 0
    out_lines = []
    eng_name = ENGINE_OF[check]
    if hang_cases:
        import importlib
        sys.path.insert(0, overlay)
        for hc in hang_cases:
            if hc['run_index'] is None:
                harness_errors.append({'run': None, 'error': 'worker died before its first run: ' + hc['stderr']})
                continue
            # regenerate the case in a clean subprocess (generation needs no mdtraj for most engines, but be safe)
            gen_out = os.path.join(scratch, 'gen-%d.json' % hc['run_index'])
            code = ('import sys, json; sys.path.insert(0, %r); from simlib.core import engine_for, run_seed; '
                    'from simlib.prng import Rng; e = engine_for(%r); '
                    'c = e.generate(%r, Rng(run_seed(%d, %r, %d)), %r, %d); json.dump(c, open(%r, "w"))'
                    % (VERIF, check, check, seed, check, hc['run_index'], args.tier, hc['run_index'], gen_out))
            subprocess.run([PY, '-c', code], env=worker_env(overlay), timeout=120)
            if not os.path.exists(gen_out):
                harness_errors.append({'run': hc['run_index'], 'error': 'cannot regenerate case after worker death'})
                continue
            case = json.load(open(gen_out))
            r = run_replay(check, case, overlay, scratch, conf, timeout_s=cap + 30, extra=extra_spec, pyopt=pyopt_of(hc['run_index']))
            kind = 'hang' if r.get('hang') else ('crash' if r.get('crash') else None)
            if kind is None:
                harness_errors.append({'run': hc['run_index'],
                                       'error': 'worker died/hung on this run but the run completes alone: ' + hc['stderr'][-800:]})
                continue
            sig = '%s|process|%s' % (check, kind)
            viol[sig] = {'signature': sig, 'run_index': hc['run_index'], 'run_seed': run_seed(seed, check, hc['run_index']),
                         'case': case, 'detail': {'kind': kind, 'stderr': (r.get('stderr') or hc['stderr'])[-1500:]},
                         'step': None, 'digest': None, 'original_ops': len(case.get('ops', [])),
                         'minimised_ops': len(case.get('ops', [])), 'minimiser_executions': 0, 'log': [],
                         'process_level': True}
            vcount[sig] = vcount.get(sig, 0) + 1

    # determinism re-check: a sample of run indices again in fresh interpreters with another hash seed
    # and another worker count; digests must be identical.
    det = {'n': 0, 'mismatches': 0}
    mismatched = []
    if agg['runs'] > 0:
        all_idx = sorted(int(k) for k in digests)
        want = 96 if args.tier == 'quick' else 400
        stepk = max(1, len(all_idx) // want)
        if stepk % 2 == 0:
            stepk += 1          # an odd stride visits every residue class modulo 8 (both interpreter modes)
        sample_idx = all_idx[::stepk][:want]
        W2 = 3 if W != 3 else 2
        procs2 = []
        force_py = bool(os.environ.get('VERIF_FORCE_PYOPT'))
        groups = []
        plain = [i for i in sample_idx if not (force_py or pyopt_of(i))]
        opt = [i for i in sample_idx if (force_py or pyopt_of(i))]
        for w in range(W2):
            if plain[w::W2]:
                groups.append((plain[w::W2], False))
        if opt:
            groups.append((opt, True))
        for w, (idx, py) in enumerate(groups):
            spec = {'check': check, 'tier': args.tier, 'seed': seed, 'indices': idx, 'pyopt': py,
                    'out': os.path.join(scratch, 'd%02d.json' % w), 'scratch': os.path.join(scratch, 'd%02d' % w),
                    'per_run_cap_s': cap, 'minimise_budget_s': 0.0}
            spec.update(extra_spec)
            procs2.append(spawn(spec, overlay, hashseed=str(1000 + w)))
        hung2 = wait_all(procs2, 600)
        for p in procs2:
            if p in hung2 or p.returncode != 0 or not os.path.exists(p._spec['out']):
                harness_errors.append({'run': None, 'error': 'determinism re-check worker failed'})
                continue
            r = json.load(open(p._spec['out']))
            order2 = p._spec['indices']
            for k, dg in r['digests'].items():
                det['n'] += 1
                if digests.get(k) != dg:
                    det['mismatches'] += 1
                    mismatched.append((int(k), digests.get(k), dg, [j for j in order2[:order2.index(int(k))]]))
        # A digest that differs between two interpreters can mean a non-deterministic harness -- or a library whose behaviour
        # depends on what earlier, unrelated histories did in the same process (static buffers, class-level state, registries).
        # Tell them apart: replay the run in fresh interpreters after each of the two sequences of prior histories; if each
        # replay reproduces "its" digest, the harness is deterministic and the dependence on process history is the library's.
        for (ri, d_orig, d_re, prior_re) in mismatched[:3]:
            b = (ri - args.start) % nb
            prior_orig = list(range(args.start + b, ri, nb))
            gen_out = os.path.join(scratch, 'gen-x-%d.json' % ri)
            code = ('import sys, json; sys.path.insert(0, %r); from simlib.core import engine_for, run_seed; '
                    'from simlib.prng import Rng; e = engine_for(%r); '
                    'c = e.generate(%r, Rng(run_seed(%d, %r, %d)), %r, %d); json.dump(c, open(%r, "w"))'
                    % (VERIF, check, check, seed, check, ri, args.tier, ri, gen_out))
            subprocess.run([PY, '-c', code], env=worker_env(overlay), timeout=120)
            confirmed = False
            if os.path.exists(gen_out):
                case_x = json.load(open(gen_out))
                ra = run_replay(check, case_x, overlay, scratch, conf, extra=extra_spec, timeout_s=900, prior=prior_orig, prior_seed=seed, prior_tier=args.tier, pyopt=pyopt_of(ri))
                rb = run_replay(check, case_x, overlay, scratch, conf, extra=extra_spec, timeout_s=900, prior=prior_re, prior_seed=seed, prior_tier=args.tier, pyopt=pyopt_of(ri))
                confirmed = ra.get('digest') == d_orig and rb.get('digest') == d_re
            if confirmed:
                sig = '%s|process|cross_history_state' % check
                if sig not in viol:
                    viol[sig] = {'signature': sig, 'run_index': ri, 'run_seed': run_seed(seed, check, ri), 'case': case_x,
                                 'detail': {'what': 'the same history gives different step logs depending on which earlier, unrelated histories ran in the same '
                                                    'interpreter; both variants replay deterministically in fresh interpreters',
                                            'digest_after_prior_A': d_orig, 'prior_A_run_indices': prior_orig,
                                            'digest_after_prior_B': d_re, 'prior_B_run_indices': prior_re},
                                 'step': None, 'digest': d_orig, 'original_ops': len(case_x.get('ops', [])), 'minimised_ops': len(case_x.get('ops', [])),
                                 'minimiser_executions': 0, 'log': [], 'process_level': True, 'prior_indices': prior_orig}
                vcount[sig] = vcount.get(sig, 0) + 1
            else:
                harness_errors.append({'run': ri, 'error': 'NONDETERMINISM: digest %s vs %s' % (d_orig, d_re)})
        for (ri, d_orig, d_re, _) in mismatched[3:]:
            if not any(sg.endswith('|process|cross_history_state') for sg in viol):
                harness_errors.append({'run': ri, 'error': 'NONDETERMINISM: digest %s vs %s' % (d_orig, d_re)})

    # stub fidelity (C08, thorough tier): the same workloads against the REAL libgomp build of the working tree under
    # several OMP_NUM_THREADS / OMP_DYNAMIC settings; per-run result digests must equal the single-thread ones.
    # Real-thread interleavings are not under our control: this is a cross-check of the stub, not the deciding step.
    real_info = None
    if check == 'C08' and (args.tier == 'thorough' or os.environ.get('VERIF_C08_REAL')) and agg['runs'] > 0:
        real_overlay = os.path.join(scratch, 'overlay-real')
        try:
            build.build_overlay(real_overlay, exts=conf['exts'], sim_omp=False)
            n_real = 240 if args.tier == 'thorough' else 32
            idx = list(range(args.start, args.start + min(n_real, nruns)))
            settings = [(1, 'false'), (2, 'false'), (3, 'false'), (5, 'false'), (8, 'true'), (16, 'false'), (64, 'true')]
            procs3 = []
            for (k, dyn) in settings:
                spec = {'check': check, 'tier': args.tier, 'seed': seed, 'indices': idx, 'real_threads': k,
                        'out': os.path.join(scratch, 'real%02d.json' % k), 'scratch': os.path.join(scratch, 'real%02d' % k),
                        'per_run_cap_s': cap, 'minimise_budget_s': 0.0, 'sim_omp': False, 'verif': VERIF, 'known_patterns': []}
                procs3.append(spawn(spec, real_overlay, env_extra={'OMP_NUM_THREADS': str(k), 'OMP_DYNAMIC': dyn}))
            hung3 = wait_all(procs3, 1800)
            base_d = None
            real_info = {'settings': ['OMP_NUM_THREADS=%d OMP_DYNAMIC=%s' % st for st in settings], 'runs_each': len(idx), 'mismatching_runs': 0}
            for p, (k, dyn) in zip(procs3, settings):
                if p in hung3 or p.returncode != 0 or not os.path.exists(p._spec['out']):
                    harness_errors.append({'run': None, 'error': 'real-libgomp cross-check worker failed (OMP_NUM_THREADS=%d)' % k})
                    continue
                r = json.load(open(p._spec['out']))
                for sgn, vv in r['violations'].items():
                    vv['process_level'] = True      # observed under real threads: not replayable under the simulator
                    vv.setdefault('detail', {})['OMP_NUM_THREADS'] = k
                    viol.setdefault(sgn, vv)
                    vcount[sgn] = vcount.get(sgn, 0) + r['violation_counts'].get(sgn, 1)
                if base_d is None:
                    base_d = r['digests']
                    continue
                for ri, dg in r['digests'].items():
                    if base_d.get(ri) != dg:
                        real_info['mismatching_runs'] += 1
                        sgn = 'C08|real_libgomp|threads|bits'
                        if sgn not in viol:
                            viol[sgn] = {'signature': sgn, 'run_index': int(ri), 'run_seed': run_seed(seed, check, int(ri)), 'case': None,
                                         'detail': {'OMP_NUM_THREADS': k, 'OMP_DYNAMIC': dyn, 'digest_1_thread': base_d.get(ri), 'digest': dg,
                                                    'caveat': 'real threads: the interleaving is not controlled; re-run with the same environment'},
                                         'step': None, 'digest': dg, 'original_ops': 0, 'minimised_ops': 0, 'minimiser_executions': 0, 'log': [],
                                         'process_level': True}
                        vcount[sgn] = vcount.get(sgn, 0) + 1
        except build.BuildError as e:
            harness_errors.append({'run': None, 'error': 'cannot build the real-libgomp overlay: %s' % e})

    # classify violations
    known = load_known(check)
    known_seen = {}
    new_viol = []
    for sig in sorted(viol):
        e = match_known(sig, known)
        if e is not None:
            known_seen.setdefault(e['signature'], {'entry': e, 'count': 0, 'sigs': []})
            known_seen[e['signature']]['count'] += vcount.get(sig, 1)
            known_seen[e['signature']]['sigs'].append(sig)
        else:
            new_viol.append(sig)
    for e in known:
        if e.get('status') == 'open':
            ks = known_seen.get(e['signature'])
            out_lines.append('KNOWN-FINDING: property=%s %s [%s; %s]' % (
                check, e.get('description', ''), e['signature'],
                ('seen %d times this run' % ks['count']) if ks else 'not reached this run'))
    rep_dir = os.path.join(os.environ.get('VERIF_REPLAY_DIR') or os.path.join(VERIF, 'replays'), check)
    n_reported = 0
    max_report = int(os.environ.get('VERIF_MAX_REPORT', '8'))
    # prefer minimised examples, then small histories
    new_viol.sort(key=lambda sg: (viol[sg].get('minimiser_executions', 0) == 0, viol[sg].get('minimised_ops', 0), sg))
    not_reported = max(0, len(new_viol) - max_report)
    for sig in new_viol[:max_report + 4]:
        if n_reported >= max_report:
            break
        v = viol[sig]
        os.makedirs(rep_dir, exist_ok=True)
        path = os.path.join(rep_dir, '%s-%d.json' % (slug(sig), v['run_seed']))
        rec = {'property': check, 'signature': sig, 'verif_seed': seed, 'run_index': v['run_index'],
               'run_seed': v['run_seed'], 'tier': args.tier, 'case': v['case'], 'detail': v['detail'],
               'step': v['step'], 'digest': v['digest'], 'log': v.get('log', []),
               'original_ops': v['original_ops'], 'minimised_ops': v['minimised_ops'],
               'minimiser_executions': v['minimiser_executions'], 'count_this_run': vcount.get(sig, 1)}
        if v.get('process_level'):
            if sig.endswith('|process|cross_history_state'):
                rec['prior_run_indices'] = v.get('prior_indices')
            with open(path, 'w') as f:
                json.dump(rec, f, indent=1)
            out_lines.append('VIOLATION property=%s replay=%s' % (check, path))
            out_lines.append('  signature: %s' % sig)
            n_reported += 1
            continue
        # confirm in a fresh interpreter
        v_py = bool(os.environ.get('VERIF_FORCE_PYOPT')) or pyopt_of(v['run_index'])
        rec['pyopt'] = v_py
        r = run_replay(check, v['case'], overlay, scratch, conf, extra=extra_spec, pyopt=v_py)
        sigs = [x['signature'] for x in r.get('violations', [])]
        if sig not in sigs and v.get('original_case') is not None and v['original_case'] != v['case']:
            # the minimised history does not reproduce in a fresh interpreter (e.g. the failure reads stale memory):
            # fall back to the un-minimised history of the run that showed it
            r = run_replay(check, v['original_case'], overlay, scratch, conf, extra=extra_spec, pyopt=v_py)
            sigs = [x['signature'] for x in r.get('violations', [])]
            if sig in sigs:
                rec['case'] = v['original_case']
                rec['minimised_ops'] = v['original_ops']
                rec['note'] = 'minimised history did not reproduce in a fresh interpreter; replay file holds the original history'
        if sig not in sigs and v.get('prior_indices'):
            # still not: the failure depends on histories that ran earlier in the same interpreter.  Replay the run
            # after a suffix of the histories its worker had executed before it (shortest suffix that reproduces).
            pri = v['prior_indices']
            for k in [1, 4, 16, 64, len(pri)]:
                suffix = pri[-k:]
                r = run_replay(check, v.get('original_case') or v['case'], overlay, scratch, conf, extra=extra_spec, timeout_s=900,
                               prior=suffix, prior_seed=seed, prior_tier=args.tier, pyopt=v_py)
                sigs = [x['signature'] for x in r.get('violations', [])]
                if sig in sigs:
                    rec['case'] = v.get('original_case') or v['case']
                    rec['minimised_ops'] = v['original_ops']
                    rec['prior_run_indices'] = suffix
                    rec['note'] = ('depends on state left behind by earlier histories in the same interpreter: the replay first re-runs '
                                   'the %d histories with the listed run indices (VERIF_SEED=%d, tier=%s), then this one' % (len(suffix), seed, args.tier))
                    break
                if k >= len(pri):
                    break
        if sig in sigs:
            rec['replay_confirmed'] = True
            rec['replay_digest'] = r['digest']
            with open(path, 'w') as f:
                json.dump(rec, f, indent=1)
            out_lines.append('VIOLATION property=%s replay=%s' % (check, path))
            out_lines.append('  signature: %s  (seen %d times; minimised %d -> %d ops; replay confirmed in a fresh interpreter)'
                             % (sig, vcount.get(sig, 1), v['original_ops'], v['minimised_ops']))
            out_lines.append('  detail: %s' % json.dumps(v['detail'])[:700])
            n_reported += 1
        else:
            harness_errors.append({'run': v['run_index'],
                                   'error': 'violation %s did not reproduce in a fresh interpreter (observed %s)' % (sig, sigs)})
    wall = time.time() - t0

    # evidence
    from . import meta as metamod
    m = metamod.META.get(check, {})
    evidence = {
        'property_id': check, 'tier': args.tier, 'seed': seed, 'level': 'exploration',
        'coverage': {
            'evaluations': agg['runs'],
            'distinct_nontrivial': len(traces),
            'rule': m.get('rule', ''),
            'samples': samples,
            'seeds': {'VERIF_SEED': seed, 'first_run_index': args.start, 'last_run_index': args.start + nruns - 1,
                      'run_seed_rule': 'sha256(VERIF_SEED, property id, run index)[:8]'},
            'steps_total': agg['steps'],
            'logical_steps_simulated': agg['steps'],
            'simulated_time_note': 'mdtraj has no timers; simulated time is reported as logical steps',
            'runs_per_hour': int(agg['runs'] / max(wall - t_build, 1e-6) * 3600),
            'faults_injected': agg['faults'],
            'probes': agg['probes'],
            'abstract_transitions_reached': len(transitions),
            'determinism_rechecks': det,
            'components': m.get('components', {}),
            'not_offered': agg['not_offered'],
            'extra_counters': agg['extra'],
            'known_findings_seen': {k: v['count'] for k, v in known_seen.items()},
            'violation_signatures': {s: vcount.get(s, 1) for s in new_viol},
            'build': {'rebuilt_from_working_tree': binfo['rebuilt'], 'prebuilt_used': binfo['prebuilt'],
                      'sim_omp': binfo['sim_omp'], 'sim_clock': binfo['sim_clock'], 'build_s': round(t_build, 1)},
            'workers': W,
            'real_libgomp_crosscheck': real_info,
            'harness_errors': len(harness_errors),
        },
        'assumptions': m.get('assumptions', []),
        'wall_s': round(wall, 2),
        'violations': n_reported,
    }
    if not args.no_evidence:
        os.makedirs(os.path.join(VERIF, 'evidence'), exist_ok=True)
        with open(os.path.join(VERIF, 'evidence', check + '.json'), 'w') as f:
            json.dump(evidence, f, indent=1, sort_keys=False)

    if not_reported > 0 and n_reported:
        out_lines.append('(%d further violation signatures were seen this run and are listed in the evidence file; the first %d are reported with confirmed replay files)'
                         % (len(new_viol) - n_reported, n_reported))
    for l in out_lines:
        print(l)
    print('%s: %d runs, %d steps, %d distinct abstract traces, %d transitions, %.0f runs/h; determinism re-checks %d (mismatches %d); wall %.1fs'
          % (check, agg['runs'], agg['steps'], len(traces), len(transitions),
             agg['runs'] / max(wall - t_build, 1e-6) * 3600, det['n'], det['mismatches'], wall))
    zero = [k for k in m.get('expected_probes', []) if not agg['probes'].get(k)]
    if zero:
        print('WARNING: probes never hit: %s' % ', '.join(zero))
    if n_reported:
        exit_code = 1
    if harness_errors:
        for he in harness_errors[:6]:
            print('HARNESS-ERROR: run=%s %s' % (he.get('run'), str(he.get('error'))[-1800:]))
        if exit_code == 0:
            exit_code = 2
    if agg['runs'] == 0 and exit_code == 0:
        print('HARNESS-ERROR: no runs executed')
        exit_code = 2
    return exit_code
