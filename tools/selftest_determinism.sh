#!/bin/sh
# determinism self-test: the same run indices under 1, 4 and 16 workers and two hash seeds must give identical step-log digests
cd /verif
N=${N:-400}
fail=0
for c in ${CHECKS:-C18 C02 C19 C20 C03 C17 C04 C08}; do
  n=$N; [ $c = C08 ] && n=$((N/4))
  for w in 1 4 16; do
    PYTHONHASHSEED_FOR_WORKERS=$w bin/vcheck $c --runs $n --workers $w --no-evidence --digests-out /var/tmp/det-$c-$w.json > /var/tmp/det-$c-$w.log 2>&1
  done
  python3 - $c <<'P' || fail=1
import json, sys
c = sys.argv[1]
d = [json.load(open('/var/tmp/det-%s-%d.json' % (c, w))) for w in (1, 4, 16)]
keys = sorted(set(d[0]) | set(d[1]) | set(d[2]), key=int)
bad = [k for k in keys if not (d[0].get(k) == d[1].get(k) == d[2].get(k))]
print('%s: %d runs x 3 worker counts, %d digest mismatches' % (c, len(keys), len(bad)))
sys.exit(1 if bad or not keys else 0)
P
done
exit $fail
