#!/usr/bin/env python3
"""run the repository's pinned suite and compare with BASELINE.json stable_pass. usage: baseline_check.py [repo]"""
import json, subprocess, sys, os, xml.etree.ElementTree as ET, tempfile
repo = sys.argv[1] if len(sys.argv) > 1 else '/repo'
b = json.load(open('/root/.vp/BASELINE.json'))
out = tempfile.mktemp(suffix='.xml', dir='/var/tmp')
cmd = b['cmd'].replace('cd /repo', 'cd ' + repo).replace('<file>', out)
env = dict(os.environ); env.pop('PYTHONPATH', None)
r = subprocess.run(cmd, shell=True, capture_output=True, text=True, env=env)
passed = set()
for tc in ET.parse(out).getroot().iter('testcase'):
    ok = not any(ch.tag in ('failure', 'error', 'skipped') for ch in tc)
    if ok:
        passed.add(tc.get('classname') + '::' + tc.get('name'))
os.unlink(out)
missing = [t for t in b['stable_pass'] if t not in passed]
print('stable_pass %d, passed now %d, missing %d' % (len(b['stable_pass']), len(passed), len(missing)))
for m in missing[:40]:
    print('  MISSING', m)
print(r.stdout[-300:])
sys.exit(1 if missing else 0)
