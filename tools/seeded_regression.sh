#!/bin/sh
# every confirmed seeded change must be detected (exit 1) by the quick tier of the check of its property
cd "$(dirname "$0")/.."      # (with TRY_REPO set, tools/try_seeded.py works on that scratch worktree instead of /repo)
fail=0
for d in seeded/*/; do
  id=$(basename $d); prop=${id%%-*}
  out=$(tools/try_seeded.py $d/patch.diff $prop 2>&1 | head -1)
  echo "$id: $out" | cut -c1-180
  case "$out" in *DETECTED*) ;; *) fail=1;; esac
done
exit $fail
