#!/bin/sh
# every confirmed seeded change must be detected (exit 1) by the quick tier of the check of its property
# (seeded/<id>/check names another check where the change is caught by that one instead; seeded/<id>/expected_miss marks the
#  documented miss).  With TRY_REPO set, tools/try_seeded.py works on that scratch worktree instead of /repo.
cd "$(dirname "$0")/.."
fail=0
for d in seeded/*/; do
  id=$(basename $d); prop=${id%%-*}
  [ -f $d/check ] && prop=$(cat $d/check)
  out=$(tools/try_seeded.py $d/patch.diff $prop 2>&1 | head -1)
  if [ -f $d/expected_miss ]; then
    echo "$id: $out (documented miss)" | cut -c1-180
    continue
  fi
  echo "$id: $out" | cut -c1-180
  case "$out" in *DETECTED*) ;; *) fail=1;; esac
done
exit $fail
