#!/bin/sh
# Demonstrates the known finding C02/trr heap overflow (stride>1 with atom_indices) under valgrind.
cat > /var/tmp/demo_trr_overflow.py <<'P'
import numpy as np, mdtraj as md, sys
sys.path.insert(0, '/verif')
from simlib import fmts
t = fmts.make_traj(8, 9, None, 1); t.save('/var/tmp/demo_overflow.trr')
md.load('/var/tmp/demo_overflow.trr', top=t.topology, stride=2, atom_indices=np.array([0, 2, 4]))
print('loaded')
P
PYTHONMALLOC=malloc valgrind -q --error-limit=no /venv/bin/python /var/tmp/demo_trr_overflow.py 2>&1 | grep -A6 "Invalid write" | head -20
rm -f /var/tmp/demo_trr_overflow.py /var/tmp/demo_overflow.trr
