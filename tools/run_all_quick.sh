#!/bin/sh
# run every check's quick command (as registered in MANIFEST.json) on /repo, rewriting evidence/*.json
cd /verif
rc=0
for c in C18 C02 C19 C20 C03 C17 C04 C08; do
  bin/vcheck $c --tier quick > /var/tmp/quick-$c.log 2>&1; r=$?
  echo "$c exit=$r $(grep "^$c:" /var/tmp/quick-$c.log | cut -c1-160)"
  [ $r -ne 0 ] && rc=1
done
python3-vt - <<'P'
import json, jsonschema, glob
sch = json.load(open('/root/.vp/EVIDENCE.schema.json'))
for f in sorted(glob.glob('/verif/evidence/C*.json')):
    jsonschema.validate(json.load(open(f)), sch)
print('evidence valid')
P
exit $rc
