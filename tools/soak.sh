#!/bin/sh
# thorough tier of every check against a snapshot of /repo HEAD (vp run --with-repo); evidence is not written
export VERIF_REPO="${VP_RUN_REPO:-/repo}" VERIF_GEN_FALLBACK=/repo VERIF_REPLAY_DIR=/var/tmp/verif-soak-replays
rc=0
for c in ${CHECKS:-C18 C02 C19 C20 C03 C17 C04 C08}; do
  bin/vcheck $c --tier thorough --no-evidence ${SOAK_ARGS:-} 2>&1 | cut -c1-400 | tail -15
done
