#!/bin/sh
# quick tier of every check under a range of VERIF_SEED values (no evidence written): any non-zero exit on the clean tree is
# either a genuine finding or a false alarm and has to be looked at.   usage: tools/seed_sweep.sh FIRST LAST [CHECKS...]
first=${1:-5}; last=${2:-12}; shift 2 2>/dev/null
checks=${*:-C18 C02 C19 C20 C03 C17 C04 C08}
export VERIF_REPLAY_DIR=${VERIF_REPLAY_DIR:-/var/tmp/verif-sweep-replays}
bad=0
s=$first
while [ $s -le $last ]; do
  for c in $checks; do
    out=$(VERIF_SEED=$s timeout 3000 bin/vcheck $c --no-evidence 2>&1); rc=$?
    if [ $rc -ne 0 ]; then bad=1; echo "seed=$s $c exit=$rc"; echo "$out" | grep -v UNCONVERGED | grep -A3 "VIOLATION\|Traceback\|HARNESS" | cut -c1-600; else echo "seed=$s $c ok"; fi
  done
  s=$((s+1))
done
exit $bad
