#!/bin/sh
# sensitivity self-test: every self-made mutant must be detected (exit 1) by the owning check's quick tier
cd "$(dirname "$0")/.."
fail=0
python3 - <<'P' > /var/tmp/selftest_list.txt
import json
for m in json.load(open('mutants/INDEX.json'))['mutants']:
    print(m['patch'], m['check'])
P
while read patch check; do
  out=$(tools/try_seeded.py mutants/$patch $check 2>&1 | head -1)
  echo "$patch: $out" | cut -c1-200
  case "$out" in *DETECTED*) ;; *) fail=1;; esac
done < /var/tmp/selftest_list.txt
exit $fail
