#!/usr/bin/env python3
"""Apply a seeded patch to /repo, run the given checks (quick tier, no evidence written), undo the patch.
usage: try_seeded.py <patch.diff> CHECK [CHECK...] [--runs N] [--tier thorough]
Prints DETECTED/MISSED per check with the violation signatures."""
import subprocess, sys, os, re
args = sys.argv[1:]
patch = os.path.abspath(args[0])
checks = [a for a in args[1:] if re.match(r'^C\d+$', a)]
extra = [a for a in args[1:] if a not in checks]
st = subprocess.run(['git', '-C', '/repo', 'status', '--porcelain', '--untracked-files=no'], capture_output=True, text=True).stdout
if st.strip():
    sys.exit('refusing: /repo has uncommitted changes:\n' + st)
r = subprocess.run(['git', '-C', '/repo', 'apply', patch], capture_output=True, text=True)
if r.returncode != 0:
    sys.exit('patch does not apply: ' + r.stderr)
rc_all = {}
try:
    for c in checks:
        env = dict(os.environ)
        env['VERIF_REPLAY_DIR'] = '/var/tmp/verif-seeded-replays'
        p = subprocess.run(['/verif/bin/vcheck', c, '--no-evidence'] + extra, capture_output=True, text=True, env=env)
        sigs = re.findall(r'signature: (\S+)', p.stdout)
        tail = [l for l in p.stdout.splitlines() if l.startswith(('HARNESS', c + ':'))]
        verdict = 'DETECTED' if p.returncode == 1 else ('MISSED' if p.returncode == 0 else 'HARNESS-ERROR(rc=%d)' % p.returncode)
        print('%s %s %s' % (c, verdict, ' '.join(sigs[:6])))
        for t in tail[:3]:
            print('   ' + t[:300])
        rc_all[c] = p.returncode
finally:
    subprocess.run(['git', '-C', '/repo', 'checkout', '--', '.'], check=True)
    left = subprocess.run(['git', '-C', '/repo', 'status', '--porcelain', '--untracked-files=no'], capture_output=True, text=True).stdout
    if left.strip():
        print('WARNING: /repo not clean after undo:\n' + left)
