#!/usr/bin/env python3
"""Apply a seeded patch to /repo, run the given checks (quick tier, no evidence written), undo the patch.
usage: try_seeded.py <patch.diff> CHECK [CHECK...] [--runs N] [--tier thorough]
Prints DETECTED/MISSED per check with the violation signatures.
With TRY_REPO=<scratch git worktree of /repo> the patch is applied there instead and the checks build from it
(VERIF_REPO), so that /repo itself stays untouched and usable; the checks run are those next to this script."""
import subprocess, sys, os, re
REPO = os.environ.get('TRY_REPO', '/repo')
HERE = os.path.dirname(os.path.dirname(os.path.abspath(__file__)))
args = sys.argv[1:]
patch = os.path.abspath(args[0])
checks = [a for a in args[1:] if re.match(r'^C\d+$', a)]
extra = [a for a in args[1:] if a not in checks]
st = subprocess.run(['git', '-C', REPO, 'status', '--porcelain', '--untracked-files=no'], capture_output=True, text=True).stdout
if st.strip():
    sys.exit('refusing: %s has uncommitted changes:\n' % REPO + st)
r = subprocess.run(['git', '-C', REPO, 'apply', patch], capture_output=True, text=True)
if r.returncode != 0:
    sys.exit('patch does not apply: ' + r.stderr)
rc_all = {}
try:
    for c in checks:
        env = dict(os.environ)
        env['VERIF_REPLAY_DIR'] = '/var/tmp/verif-seeded-replays' + ('' if REPO == '/repo' else '-' + os.path.basename(REPO))
        if REPO != '/repo':
            env['VERIF_REPO'] = REPO
            env['VERIF_GEN_FALLBACK'] = '/repo'
        p = subprocess.run([os.path.join(HERE, 'bin', 'vcheck'), c, '--no-evidence'] + extra, capture_output=True, text=True, env=env)
        sigs = re.findall(r'signature: (\S+)', p.stdout)
        tail = [l for l in p.stdout.splitlines() if l.startswith(('HARNESS', c + ':'))]
        verdict = 'DETECTED' if p.returncode == 1 else ('MISSED' if p.returncode == 0 else 'HARNESS-ERROR(rc=%d)' % p.returncode)
        print('%s %s %s' % (c, verdict, ' '.join(sigs[:6])))
        for t in tail[:3]:
            print('   ' + t[:300])
        rc_all[c] = p.returncode
finally:
    subprocess.run(['git', '-C', REPO, 'checkout', '--', '.'], check=True)
    left = subprocess.run(['git', '-C', REPO, 'status', '--porcelain', '--untracked-files=no'], capture_output=True, text=True).stdout
    if left.strip():
        print('WARNING: %s not clean after undo:\n' % REPO + left)
