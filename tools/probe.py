#!/venv/bin/python
"""developer tool: run N generated cases of a check in-process against the *installed* mdtraj (or PYTHONPATH overlay)
and summarise violation signatures.  usage: probe.py CHECK start n [sigfilter]"""
import sys, json, os, collections, time
for _k in ("OMP_NUM_THREADS", "OPENBLAS_NUM_THREADS", "MKL_NUM_THREADS", "NUMEXPR_NUM_THREADS"):
    os.environ.setdefault(_k, "1")
sys.path.insert(0, os.path.dirname(os.path.dirname(os.path.abspath(__file__))))
from simlib.core import engine_for, Sandbox, execute_case, run_seed
from simlib.prng import Rng
check=sys.argv[1]; start=int(sys.argv[2]); n=int(sys.argv[3]); filt=sys.argv[4] if len(sys.argv)>4 else None
tier=os.environ.get('VERIF_TIER','quick')
eng=engine_for(check)
if hasattr(eng,'setup_worker'): eng.setup_worker(check, {'sim_omp': False, 'sim_clock': False, 'verif': '/verif'})
sb=Sandbox('/dev/shm/probe-%d'%os.getpid())
cnt=collections.Counter(); first={}
t0=time.time(); herr=0
for i in range(start,start+n):
    case=eng.generate(check, Rng(run_seed(20261003,check,i)), tier, i)
    r=execute_case(eng,check,case,sb)
    if r.extra.get('harness_error'):
        herr+=1
        if herr<=3: print('HARNESS ERROR run',i, r.extra['harness_error'][-1500:])
    for v in r.violations:
        cnt[v['signature']]+=1
        if v['signature'] not in first: first[v['signature']]=(i,v,case)
for s,c in sorted(cnt.items()):
    if filt and filt not in s: continue
    i,v,case=first[s]
    print('%5d  %s   (run %d step %s)'%(c,s,i,v['step']))
    print('        ', json.dumps(v['detail'])[:int(os.environ.get('W','400'))])
print('%d runs in %.1fs, %d harness errors, %d signatures'%(n,time.time()-t0,herr,len(cnt)))
import shutil; shutil.rmtree(sb.root, ignore_errors=True)
