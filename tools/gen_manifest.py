#!/usr/bin/env python3
"""Generate /verif/MANIFEST.json from one table (keeps it valid at all times)."""
import json
import os
import sys

VERIF = os.path.dirname(os.path.dirname(os.path.abspath(__file__)))
sys.path.insert(0, VERIF)
from simlib.meta import META, NOT_APPLICABLE, BUILT  # noqa

BASE_CMD = json.load(open('/root/.vp/BASELINE.json'))['cmd']

checks = []
for cid in sorted(BUILT):
    m = META[cid]
    checks.append({
        'property_id': cid,
        'quick_cmd': '/verif/bin/vcheck %s --tier quick' % cid,
        'thorough_cmd': '/verif/bin/vcheck %s --tier thorough' % cid,
        'evidence_file': '/verif/evidence/%s.json' % cid,
        'replay_cmd_template': '/verif/bin/vcheck %s --replay {path}' % cid,
        'engine': m['engine'],
        'level_claimed': {'category': 'exploration', 'text': m['level_text'], 'design_ref': m['design_ref']},
        'level_note': m['level_note'],
        'technique': m['technique'],
    })

na = [{'property_id': k, 'reason': v} for k, v in sorted(NOT_APPLICABLE.items())]
for cid in sorted(META):
    if cid not in BUILT:
        na.append({'property_id': cid, 'reason': 'check designed (DESIGN.md) but not built yet; not claimed'})

engines = [
    {'name': 'E1 handle-sim', 'path': 'simlib/engines/e1_handles.py', 'serves_properties': ['C18', 'C02'],
     'kind_free_text': 'seeded scheduler stepping raw file handles, iterload generators and one-shot loaders on shared files against a cursor / slice-of-full-load reference model'},
    {'name': 'E2 writer/crash-sim', 'path': 'simlib/engines/e2_writer.py', 'serves_properties': ['C19'],
     'kind_free_text': 'seeded write/flush/ragged-write/process-kill histories on streaming writers against an accepted-frames model; crash = durable-state snapshot through a second descriptor'},
    {'name': 'E3 fs-sim', 'path': 'simlib/engines/e3_fs.py', 'serves_properties': ['C20'],
     'kind_free_text': 'seeded save/open/read histories over a scratch tree against a path->bytes model with pinned clocks'},
    {'name': 'E4a object-history-sim', 'path': 'simlib/engines/e4a_traj.py', 'serves_properties': ['C03', 'C17'],
     'kind_free_text': 'seeded operation histories over a pool of live Trajectory objects, each paired with a numpy reference model; scribble faults'},
    {'name': 'E4b topology-history-sim', 'path': 'simlib/engines/e4b_top.py', 'serves_properties': ['C04'],
     'kind_free_text': 'seeded transformation/edit histories over a pool of Topology objects against plain-data models'},
    {'name': 'E5 omp-sim', 'path': 'simlib/engines/e5_omp.py', 'serves_properties': ['C08'],
     'kind_free_text': 'deterministic replacement of libgomp (csrc/simgomp.c): seeded team size, baton-passing pthreads, basic-block yield points; per-frame results compared across schedules and frame contexts'},
]
engines = [e for e in engines if any(p in BUILT for p in e['serves_properties'])]

manifest = {
    'version': 1,
    'setup_cmd': '/verif/bin/vsetup',
    'hooks': {
        'guard': 'MDTRAJ_VERIF_SIM',
        'enable': 'no source hook exists in /repo: every seam is external (harness step loop, link-time replacement of libgomp and time() in the rebuilt extension modules, module-attribute fakes for clocks). The guard name is read only by the verif launcher.',
        'baseline_off_cmd': BASE_CMD,
        'source_commits': [],
        'add_only': True,
    },
    'engines': engines,
    'checks': checks,
    'not_applicable': na,
    'notes': 'Technique: deterministic simulation with fault injection (seeded schedules and fault sequences, reference-model oracles, minimised replay files). See DESIGN.md. Known findings: known_findings.json. fix: commits in /repo are listed there as fixed entries.',
}
with open(os.path.join(VERIF, 'MANIFEST.json'), 'w') as f:
    json.dump(manifest, f, indent=1)
print('MANIFEST.json written: %d checks, %d not_applicable' % (len(checks), len(na)))
